"""C12 — pmapping-table Pareto pruning respects objectives, reservations and tolerances.

Under contract (proof level) are the three rounding kernels of accelforge/mapper/FFM/_pareto_df/pareto.py that
implement the tolerances:  round_to_tolerance, logscale_to_tolerance, multi_round.  Values are modelled
pointwise (one entry of the pandas Series / numpy array; pandas and numpy arithmetic, np.round, np.log, np.exp
and np.where are elementwise -- assumed).  Proved: an absolutely rounded value differs from the original by at
most half the absolute tolerance; a logarithmically rounded value differs from the original, in the logarithm,
by at most half of log(1 + t); multi_round picks the logarithmic rounding exactly where t*x exceeds the
absolute tolerance.  (From these, by arithmetic: if two rounded values compare r(a) <= r(b) then
a <= (1+t)*b resp. a <= b + A -- the slack the property states.)
Also under contract: the column loop of makepareto (slice `classify_columns`): exactly the non-constant columns that
are listed (or are fused-loop / split-by columns) reach the Pareto filter, in column order; objectives with goal
'min' after logarithmic rounding with the OBJECTIVE tolerance, fused-loop columns with goal 'diff' and untouched
values, reservations with goal 'min' after multi_round with the relative and absolute RESOURCE tolerances, other
listed columns with goal 'min' untouched (pandas: DataFrame[c], Series.values, ndarray == scalar, .all() modelled;
the rounded Series are identified by (source Series, tolerances) -- the link to the pointwise kernel contracts is the
pointwise-model assumption).
The rest of makepareto / PmappingDataframe.make_pareto (column selection by name parsing, pd.concat, the Pareto
filter of C11) is NOT under contract: the property is decided by the bounded check (oracles/C12.py); the check is registered at level
`exploration`.
"""
import z3
from vf.dsl import *
import vf.values as VV

P = Property("C12", "Pmapping-table Pareto pruning respects objectives, reservations and tolerances")
F = "accelforge/mapper/FFM/_pareto_df/pareto.py"
P.oracle = "C12"
P.claim_level = "exploration"
P.assume_note("pointwise model: x is one entry of the Series / array; pandas / numpy arithmetic, np.round, np.log, np.exp, np.where are elementwise")
P.assume_note("makepareto slice: iterating DataFrame.columns yields the column names in order; DataFrame[c] is a pure function of the table and the name; Series.values is a 1-D array, `arr == arr[0]` its elementwise mask and .all() the conjunction; is_objective_col / col2reservation are pure predicates of the name; a rounding kernel applied to a whole Series is the Series of the pointwise results")
P.assume_note("np.round(u) is an integer within 1/2 of u; np.log / np.exp are inverse, strictly increasing functions (uninterpreted otherwise); Series.min() is a lower bound of every entry")

LOG = Function("np_log", RealSort(), RealSort())
EXP = Function("np_exp", RealSort(), RealSort())
RND = Function("np_round", RealSort(), RealSort())
MINOF = Function("series_min", RealSort(), RealSort())
_u, _v = Reals("nu nv")
P.hint("def.round", ForAll([_u], And(RND(_u) - _u <= RealVal("1/2"), _u - RND(_u) <= RealVal("1/2")), patterns=[RND(_u)]))
P.hint("def.log_exp", ForAll([_u], LOG(EXP(_u)) == _u, patterns=[EXP(_u)]))
P.hint("def.exp_log", ForAll([_u], Implies(_u > 0, EXP(LOG(_u)) == _u), patterns=[LOG(_u)]))
P.hint("def.exp_positive", ForAll([_u], EXP(_u) > 0, patterns=[EXP(_u)]))
P.hint("def.log_one", LOG(RealVal(1)) == 0)
P.hint("def.log_increasing", ForAll([_u, _v], Implies(And(_u > 0, _u < _v), LOG(_u) < LOG(_v)), patterns=[z3.MultiPattern(LOG(_u), LOG(_v))]))


def pure1(name, fn, why):
    @P.external(name, why)
    def c_(c):
        x = c.arg("x", REAL)
        c.result_is(fn(x))
    return c_


pure1("np.round", RND, "numpy.round: the nearest integer (within 1/2)")
pure1("np.log", LOG, "numpy.log")
pure1("np.exp", EXP, "numpy.exp")


@P.external("min", "Series.min(): a lower bound of every entry (pointwise model: of this entry)")
def c_min(c):
    x = c.arg("self", REAL)
    c.result(REAL)
    c.post("lower_bound", lambda r: And(r == MINOF(x), r <= x))


@P.external("np.where", "numpy.where(mask, a, b): elementwise choice")
def c_where(c):
    m = c.arg("condition", BOOL)
    a = c.arg("x", REAL)
    b = c.arg("y", REAL)
    c.result_is(If(m, a, b))


half = RealVal("1/2")


@P.fn(F, "round_to_tolerance")
def c_round_abs(c):
    x = c.arg("x", REAL)
    t = c.arg("tolerance", REAL)
    c.pre("tolerance_nonnegative", t >= 0)
    c.result(REAL)
    c.post("unchanged_without_tolerance", lambda r: Implies(t == 0, VV.to_real(r) == x))
    c.post("within_half_a_step", lambda r: And(VV.to_real(r) - x <= t * half, x - VV.to_real(r) <= t * half))
    c.post("a_multiple_of_the_step", lambda r: Implies(t > 0, VV.to_real(r) == RND(x / t) * t))


P.classes |= {"DataFrame", "Series"}
P.field("columns", SEQ(ELEM))
P.field("values", SEQ(VAL))
P.ndarray_fields |= {"values"}
COLUMN = Function("column_of_table", Ref, VV.Elem, Ref)               # mappings[c]
LOGROUNDED = Function("series_rounded_logarithmically", Ref, RealSort(), Ref)     # logscale_to_tolerance(series, t), as a whole
MULTIROUNDED = Function("series_multi_rounded", Ref, RealSort(), RealSort(), Ref)  # multi_round(series, t, A), as a whole


@P.fn(F, "logscale_to_tolerance")
def c_round_log(c):
    x = c.arg("x", REAL if c.mode != "call" else CONST(None))
    t = c.arg("tolerance", OPT(REAL))
    if isinstance(x, ObjV):
        # called with a whole Series (makepareto): the Series whose entries are rounded as this contract says
        # (pointwise model); identified by the source Series and the tolerance
        c.result_is(ObjV(LOGROUNDED(x.ref, If(t.isnone, RealVal(0), t.val)), "Series"))
        return
    c.pre("tolerance_nonnegative", Or(t.isnone, t.val >= 0))
    c.result(REAL)
    c.raises("AssertionError", when=lambda: BoolVal(False), name="never")
    L1 = LOG(1 + t.val)
    off = Or(t.isnone, t.val == 0, MINOF(x) <= 0)
    c.post("unchanged_without_tolerance_or_with_nonpositive_entries", lambda r: Implies(off, VV.to_real(r) == x))
    c.post("within_half_a_step_in_the_logarithm", lambda r: Implies(Not(off), And(VV.to_real(r) > 0, LOG(VV.to_real(r)) - LOG(x) <= L1 * half, LOG(x) - LOG(VV.to_real(r)) <= L1 * half)))


@P.fn(F, "multi_round")
def c_multi_round(c):
    x = c.arg("x", REAL if c.mode != "call" else CONST(None))
    t = c.arg("tolerance", OPT(REAL))
    A = c.arg("absolute_tolerance", OPT(REAL))
    if isinstance(x, ObjV):
        c.result_is(ObjV(MULTIROUNDED(x.ref, If(t.isnone, RealVal(0), t.val), If(A.isnone, RealVal(0), A.val)), "Series"))
        return
    c.pre("tolerances_nonnegative", And(Or(t.isnone, t.val >= 0), Or(A.isnone, A.val >= 0)))
    c.result(REAL)
    tv = If(t.isnone, RealVal(0), t.val)
    Av = If(A.isnone, RealVal(0), A.val)
    L1 = LOG(1 + tv)
    logr = lambda r: And(r > 0, LOG(r) - LOG(x) <= L1 * half, LOG(x) - LOG(r) <= L1 * half)
    absr = lambda r: And(r - x <= Av * half, x - r <= Av * half)
    use_log = And(tv > 0, Or(Av == 0, tv * x > Av))
    c.post("rounded_logarithmically_where_the_relative_step_is_larger", lambda r: Implies(And(use_log, MINOF(x) > 0), logr(VV.to_real(r))))
    c.post("rounded_absolutely_elsewhere", lambda r: Implies(And(Not(use_log), tv == 0), absr(VV.to_real(r))))
    c.post("never_further_than_the_larger_slack", lambda r: Or(VV.to_real(r) == x, absr(VV.to_real(r)), And(MINOF(x) > 0, logr(VV.to_real(r)))))


# ---------------------------------------------------------------------------------------------------------
# makepareto: which columns reach the Pareto filter, with which goal and which rounding (the loop over the
# columns, as a slice).  From the statement: rows are compared only within identical fused-loop tile shapes
# (goal 'diff', values untouched); objectives are minimised after rounding with the OBJECTIVE tolerance;
# reservations are minimised after rounding with the relative and absolute RESOURCE tolerances; constant
# columns never take part.

ISOBJ = Function("is_objective_col", VV.Elem, BoolSort())
ISRES = Function("is_reservation_col", VV.Elem, BoolSort())


@P.external("is_objective_col", "df_convention.is_objective_col(c): a pure predicate on the column name")
def c_is_obj(c):
    n = c.arg("c", ELEM)
    c.result_is(ISOBJ(n))


@P.external("col2reservation", "df_convention.col2reservation(c): None unless the column name is a reservation (pure)")
def c_col2res(c):
    n = c.arg("x", ELEM)
    c.result(OPT(VAL))
    c.post("none_unless_reservation", lambda r: r.isnone == Not(ISRES(n)))


@P.external("__getitem__", "DataFrame[column name]: that column as a Series (pure)", cls="DataFrame")
def c_df_col(c):
    d = c.arg("self", OBJ("DataFrame"))
    k = c.arg("key", ELEM)
    c.result_is(ObjV(COLUMN(d.ref, k), "Series"))


@P.slice(F, "makepareto", "classify_columns", "goals = []", "for c in mappings.columns:")
def c_classify(c):
    m = c.var("mappings", OBJ("DataFrame"))
    cols_set = c.var("columns_set", SET(ELEM))
    split_set = c.var("split_by_cols_set", SET(ELEM))
    ot = c.var("objective_tolerance", REAL)
    rt = c.var("resource_usage_tolerance", REAL)
    at_ = c.var("absolute_resource_usage_tolerance", REAL)
    c.local("goals", SEQ(ELEM))
    c.local("to_pareto", SEQ(OBJ("Series")))
    ex = c.ex
    cols = ex.materialize(c.field(m, "columns"))
    (ca,) = arrs_of(cols)
    n = cols.n
    NAME = lambda j: Select(ca, j)
    SER = lambda j: COLUMN(m.ref, NAME(j))
    vals_n = lambda j: ex.materialize(ex.read_field(ObjV(SER(j), "Series"), "values"))
    j, i = Ints("kj ki")

    def constant(j_):
        v = vals_n(j_)
        (va,) = arrs_of(v)
        return Or(v.n <= 1, ForAll([i], Implies(And(i >= 0, i < v.n), Select(va, i) == Select(va, 0))))

    in_cols = lambda j_: Select(cols_set.arr, NAME(j_))
    in_split = lambda j_: Select(split_set.arr, NAME(j_))
    objective = lambda j_: And(in_cols(j_), ISOBJ(NAME(j_)))
    fused = lambda j_: And(Not(objective(j_)), in_split(j_))
    reservation = lambda j_: And(Not(objective(j_)), Not(in_split(j_)), in_cols(j_), ISRES(NAME(j_)))
    plain = lambda j_: And(Not(objective(j_)), Not(in_split(j_)), in_cols(j_), Not(ISRES(NAME(j_))))
    used = lambda j_: And(Not(constant(j_)), Or(in_cols(j_), in_split(j_)))
    # position of column j among the used ones (recursively defined count)
    POS = Function(fresh_name("used_columns_before"), IntSort(), IntSort())
    ex.assume(POS(0) == 0)
    ex.assume(ForAll([j], Implies(And(j >= 1, j <= n), POS(j) == POS(j - 1) + If(used(j - 1), 1, 0)), patterns=[POS(j)]))
    MIN, DIFF = P.elem_of_str("min"), P.elem_of_str("diff")

    def state(goals, tp, upto):
        goals, tp = ex.materialize(goals), ex.materialize(tp)
        G = lambda j_: at(goals, POS(j_))
        T = lambda j_: at(tp, POS(j_))
        return [
            ("one_entry_per_used_column", And(goals.n == POS(upto), tp.n == POS(upto), POS(upto) >= 0)),
            ("entries_in_column_order_with_goal_and_rounding", forall([j], Implies(And(j >= 0, j < upto, used(j)), And(
                POS(j) >= 0, POS(j) < goals.n,
                Implies(objective(j), And(G(j) == MIN, T(j) == LOGROUNDED(SER(j), ot))),
                Implies(fused(j), And(G(j) == DIFF, T(j) == SER(j))),
                Implies(reservation(j), And(G(j) == MIN, T(j) == MULTIROUNDED(SER(j), rt, at_))),
                Implies(plain(j), And(G(j) == MIN, T(j) == SER(j))))), patterns=[POS(j)])),
        ]

    c.invariant("L0", lambda L: state(L.v("goals"), L.v("to_pareto"), L.k))
    for nm, f in state_posts(state, n):
        c.post(nm, f)


def state_posts(state, n):
    out = []
    for idx in range(2):
        def mk(idx=idx):
            return lambda res: state(res["goals"], res["to_pareto"], n)[idx][1]
        out.append((["one_entry_per_used_column", "entries_in_column_order_with_goal_and_rounding"][idx], mk()))
    return out
