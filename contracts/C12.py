"""C12 — pmapping-table Pareto pruning respects objectives, reservations and tolerances.

Under contract (proof level) are the three rounding kernels of accelforge/mapper/FFM/_pareto_df/pareto.py that
implement the tolerances:  round_to_tolerance, logscale_to_tolerance, multi_round.  Values are modelled
pointwise (one entry of the pandas Series / numpy array; pandas and numpy arithmetic, np.round, np.log, np.exp
and np.where are elementwise -- assumed).  Proved: an absolutely rounded value differs from the original by at
most half the absolute tolerance; a logarithmically rounded value differs from the original, in the logarithm,
by at most half of log(1 + t); multi_round picks the logarithmic rounding exactly where t*x exceeds the
absolute tolerance.  (From these, by arithmetic: if two rounded values compare r(a) <= r(b) then
a <= (1+t)*b resp. a <= b + A -- the slack the property states.)
makepareto / PmappingDataframe.make_pareto themselves (pandas column algebra, the Pareto filter of C11) are NOT
under contract: the property is decided by the bounded check (oracles/C12.py); the check is registered at level
`exploration`.
"""
import z3
from vf.dsl import *
import vf.values as VV

P = Property("C12", "Pmapping-table Pareto pruning respects objectives, reservations and tolerances")
F = "accelforge/mapper/FFM/_pareto_df/pareto.py"
P.oracle = "C12"
P.claim_level = "exploration"
P.assume_note("pointwise model: x is one entry of the Series / array; pandas / numpy arithmetic, np.round, np.log, np.exp, np.where are elementwise")
P.assume_note("np.round(u) is an integer within 1/2 of u; np.log / np.exp are inverse, strictly increasing functions (uninterpreted otherwise); Series.min() is a lower bound of every entry")

LOG = Function("np_log", RealSort(), RealSort())
EXP = Function("np_exp", RealSort(), RealSort())
RND = Function("np_round", RealSort(), RealSort())
MINOF = Function("series_min", RealSort(), RealSort())
_u, _v = Reals("nu nv")
P.hint("def.round", ForAll([_u], And(RND(_u) - _u <= RealVal("1/2"), _u - RND(_u) <= RealVal("1/2")), patterns=[RND(_u)]))
P.hint("def.log_exp", ForAll([_u], LOG(EXP(_u)) == _u, patterns=[EXP(_u)]))
P.hint("def.exp_log", ForAll([_u], Implies(_u > 0, EXP(LOG(_u)) == _u), patterns=[LOG(_u)]))
P.hint("def.exp_positive", ForAll([_u], EXP(_u) > 0, patterns=[EXP(_u)]))
P.hint("def.log_one", LOG(RealVal(1)) == 0)
P.hint("def.log_increasing", ForAll([_u, _v], Implies(And(_u > 0, _u < _v), LOG(_u) < LOG(_v)), patterns=[z3.MultiPattern(LOG(_u), LOG(_v))]))


def pure1(name, fn, why):
    @P.external(name, why)
    def c_(c):
        x = c.arg("x", REAL)
        c.result_is(fn(x))
    return c_


pure1("np.round", RND, "numpy.round: the nearest integer (within 1/2)")
pure1("np.log", LOG, "numpy.log")
pure1("np.exp", EXP, "numpy.exp")


@P.external("min", "Series.min(): a lower bound of every entry (pointwise model: of this entry)")
def c_min(c):
    x = c.arg("self", REAL)
    c.result(REAL)
    c.post("lower_bound", lambda r: And(r == MINOF(x), r <= x))


@P.external("np.where", "numpy.where(mask, a, b): elementwise choice")
def c_where(c):
    m = c.arg("condition", BOOL)
    a = c.arg("x", REAL)
    b = c.arg("y", REAL)
    c.result_is(If(m, a, b))


half = RealVal("1/2")


@P.fn(F, "round_to_tolerance")
def c_round_abs(c):
    x = c.arg("x", REAL)
    t = c.arg("tolerance", REAL)
    c.pre("tolerance_nonnegative", t >= 0)
    c.result(REAL)
    c.post("unchanged_without_tolerance", lambda r: Implies(t == 0, VV.to_real(r) == x))
    c.post("within_half_a_step", lambda r: And(VV.to_real(r) - x <= t * half, x - VV.to_real(r) <= t * half))
    c.post("a_multiple_of_the_step", lambda r: Implies(t > 0, VV.to_real(r) == RND(x / t) * t))


@P.fn(F, "logscale_to_tolerance")
def c_round_log(c):
    x = c.arg("x", REAL)
    t = c.arg("tolerance", OPT(REAL))
    c.pre("tolerance_nonnegative", Or(t.isnone, t.val >= 0))
    c.result(REAL)
    c.raises("AssertionError", when=lambda: BoolVal(False), name="never")
    L1 = LOG(1 + t.val)
    off = Or(t.isnone, t.val == 0, MINOF(x) <= 0)
    c.post("unchanged_without_tolerance_or_with_nonpositive_entries", lambda r: Implies(off, VV.to_real(r) == x))
    c.post("within_half_a_step_in_the_logarithm", lambda r: Implies(Not(off), And(VV.to_real(r) > 0, LOG(VV.to_real(r)) - LOG(x) <= L1 * half, LOG(x) - LOG(VV.to_real(r)) <= L1 * half)))


@P.fn(F, "multi_round")
def c_multi_round(c):
    x = c.arg("x", REAL)
    t = c.arg("tolerance", OPT(REAL))
    A = c.arg("absolute_tolerance", OPT(REAL))
    c.pre("tolerances_nonnegative", And(Or(t.isnone, t.val >= 0), Or(A.isnone, A.val >= 0)))
    c.result(REAL)
    tv = If(t.isnone, RealVal(0), t.val)
    Av = If(A.isnone, RealVal(0), A.val)
    L1 = LOG(1 + tv)
    logr = lambda r: And(r > 0, LOG(r) - LOG(x) <= L1 * half, LOG(x) - LOG(r) <= L1 * half)
    absr = lambda r: And(r - x <= Av * half, x - r <= Av * half)
    use_log = And(tv > 0, Or(Av == 0, tv * x > Av))
    c.post("rounded_logarithmically_where_the_relative_step_is_larger", lambda r: Implies(And(use_log, MINOF(x) > 0), logr(VV.to_real(r))))
    c.post("rounded_absolutely_elsewhere", lambda r: Implies(And(Not(use_log), tv == 0), absr(VV.to_real(r))))
    c.post("never_further_than_the_larger_slack", lambda r: Or(VV.to_real(r) == x, absr(VV.to_real(r)), And(MINOF(x) > 0, logr(VV.to_real(r)))))
