"""C29 — renames resolve with per-Einsum entries overriding defaults.

Real code:
  accelforge/frontend/renames.py   Renames.get_renames_for_einsum, Rename._eval_expressions
  accelforge/frontend/workload.py  Einsum._eval_expressions  (SLICE: the merge of Einsum-local,
                                   per-Einsum and default renames)
  accelforge/util/_basetypes.py    EvalableList.__getitem__ (SLICE: the lookup by name), which is
                                   what `name in renames` / `renames[name]` mean for these lists

A rename table is a list of Rename objects looked up by `.name` (EvalableList).  The engine's
model of that lookup (by_name_exists / by_name_index) is exactly the contract proved for the
`str` branch of EvalableList.__getitem__ below.
"""
import z3
from vf.dsl import *
import vf.values as VV

P = Property("C29", "Renames resolve with per-Einsum entries overriding defaults")
R = "accelforge/frontend/renames.py"
W = "accelforge/frontend/workload.py"
B = "accelforge/util/_basetypes.py"
P.oracle = "C29"
P.assume_note("pydantic model construction / copy.deepcopy / RenameList(list) are assumed (fresh objects with equal field values; lists keep their elements)")
P.assume_note("names inside one rename list are distinct and at most one top-level entry has a given Einsum name (else the real lookup raises ValueError / the entry is ambiguous): preconditions")
P.assume_note("super()._eval_expressions of a Rename is assumed to return some evaluated Rename (the evaluation machinery itself is C21/C22)")

P.field("einsums", SEQ(OBJ("EinsumRename")))
P.field("name", ELEM)
P.field("tensor_accesses", SEQ(OBJ("Rename")))
P.field("rank_variables", SEQ(OBJ("Rename")))
P.field("renames", SEQ(OBJ("Rename")))
P.field("source", OBJ())
P.field("expected_count", OPT(INT))
P.by_name_lists |= {"Rename"}
P.classes |= {"InvertibleSet", "Rename", "EinsumRename", "RenameList", "Einsum"}
DEFAULT = P.elem_of_str("default")

from vf.builtins import empty_seq

P.record("EinsumRename", ["name", "tensor_accesses", "rank_variables"],
         defaults={"tensor_accesses": lambda ex: empty_seq(OBJ("Rename").shape()), "rank_variables": lambda ex: empty_seq(OBJ("Rename").shape())})

LISTS = ("tensor_accesses", "rank_variables")


def H(c, field, heap=None):
    """heap array(s) of a field in the current (or a given) heap"""
    return c.ex.heap_arrays(field, heap)


def name_of(c, ref, heap=None):
    return Select(H(c, "name", heap)[0], ref)


def src_of(c, ref, heap=None):
    return Select(H(c, "source", heap)[0], ref)


def lst(c, ref, field, heap=None):
    a, n = H(c, field, heap)
    return SeqV(OBJ("Rename").shape(), Select(a, ref), Select(n, ref))


def resolves(c, seq, key, src):
    """`key` is in the table `seq` and resolves to the source `src` (current heap)."""
    ex = c.ex
    return And(ex.by_name_exists(seq, key), src_of(c, Select(arrs_of(ex.materialize(seq))[0], ex.by_name_index(seq)(key))) == src)


def distinct_names(c, seq, heap=None):
    p, q = Ints("dp dq")
    return ForAll([p, q], Implies(And(p >= 0, p < q, q < seq.n), name_of(c, at(seq, p), heap) != name_of(c, at(seq, q), heap)))


# ---- pydantic / copy (assumed) ----------------------------------------------------------------
@P.external("__deepcopy__", "copy.deepcopy(EinsumRename): a fresh EinsumRename whose rename lists hold fresh Rename objects with the same names and sources, in the same order", cls="EinsumRename")
def c_deepcopy(c):
    e = c.arg("self", OBJ("EinsumRename"))
    if c.mode != "call":
        return
    ex = c.ex
    r = ex.new_object("EinsumRename")
    ex.write_field(r, "name", ex.read_field(e, "name"))
    j = Int("cj")
    for f in LISTS:
        old = ex.read_field(e, f)
        new = T_SEQ_RENAME.fresh("copy." + f)
        ex.assume(new.n == old.n)
        ex.write_field(r, f, new)
        # element-wise: fresh objects, same name / source / expected_count
        ex.assume(forall([j], Implies(And(j >= 0, j < old.n), And(
            Not(P.alloc0(at(new, j))), at(new, j) != NULL,
            name_of(c, at(new, j)) == name_of(c, at(old, j)),
            src_of(c, at(new, j)) == src_of(c, at(old, j)))), patterns=[at(new, j), at(old, j)]))
    c.result_is(r)


T_SEQ_RENAME = SEQ(OBJ("Rename"))


@P.external("RenameList", "RenameList(list): a new list with the same elements")
def c_renamelist(c):
    x = c.arg("iterable", SEQ(OBJ("Rename")))
    c.result_is(x)


@P.external("super._eval_expressions", "Evalable._eval_expressions of a Rename: returns (some evaluated Rename, symbol table)", cls="Rename")
def c_super_eval(c):
    c.arg("self", OBJ("Rename"))
    c.arg("symbol_table", VAL)
    c.result(TUP(OBJ("Rename"), VAL))


SETLEN = Function("len_of_set", Ref, IntSort())


@P.external("__len__", "len(InvertibleSet): the number of elements (>= 0)", cls=None)
def c_len(c):
    s = c.arg("self", OBJ())
    c.result_is(SETLEN(s.ref))


# ---- EvalableList.__getitem__, str branch -----------------------------------------------------
@P.slice(B, "EvalableList.__getitem__", "str_branch", "found = None", "if found is not None", allows_return=True)
def c_getitem(c):
    self_ = c.var("self", SEQ(OBJ("Rename")))
    key = c.var("key", ELEM)
    c.local("found", OPT(OBJ("Rename")))
    i, p, q = Ints("gi gp gq")
    dup = Exists([p, q], And(p >= 0, p < q, q < self_.n, name_of(c, at(self_, p)) == key, name_of(c, at(self_, q)) == key))
    c.raises("ValueError", when=lambda: dup, name="only_on_duplicate_names")

    def post_found(res):
        r = res.returned
        if r is None:
            return BoolVal(True)
        r = r.val if isinstance(r, VV.OptV) else r
        return And(mem(self_, r.ref), name_of(c, r.ref) == key)

    def post_absent(res):
        if res.returned is not None:
            return BoolVal(True)
        return ForAll([i], Implies(And(i >= 0, i < self_.n), name_of(c, at(self_, i)) != key))

    c.post("returns_an_element_with_that_name", post_found)
    c.post("falls_through_only_if_no_element_has_that_name", post_absent)

    def inv(L):
        f = L.v("found")
        j = Int("gj")
        return [
            ("found_is_the_match_so_far", If(f.isnone,
                                           ForAll([j], Implies(And(j >= 0, j < L.k), name_of(c, at(self_, j)) != key)),
                                           And(mem(self_, f.val.ref), name_of(c, f.val.ref) == key,
                                               Exists([j], And(j >= 0, j < L.k, at(self_, j) == f.val.ref))))),
        ]

    c.invariant("L0", inv)


# ---- Renames.get_renames_for_einsum --------------------------------------------------------------
def index_of_entry(c, einsums, key, heap):
    """definition of a ghost index: the position of the top-level entry named `key`, or -1"""
    i = Int("gi")
    return lambda g: Or(And(g >= 0, g < einsums.n, name_of(c, at(einsums, g), heap) == key),
                        And(g == -1, ForAll([i], Implies(And(i >= 0, i < einsums.n), name_of(c, at(einsums, i), heap) != key), patterns=[at(einsums, i)])))


class Tables:
    """The statement of the property for one rename list (`field`), over the entry named E
    (index iE or -1) and the entry named 'default' (index iD or -1) of the ORIGINAL heap:
       A  every rename of the entry named E resolves, in the merged table, to its source;
       B  every rename of the default entry whose name the entry named E does not define
          resolves to the default source;
       C  the merged table defines no other name.
    `upto` (for loop invariants) restricts the default entry to its first `upto` renames."""

    def __init__(self, c, einsums, iE, iD, field, heap0):
        self.c, self.heap0 = c, heap0
        self.hasE, self.hasD = iE >= 0, iD >= 0
        self.LE = lst(c, at(einsums, iE), field, heap0)
        self.LD = lst(c, at(einsums, iD), field, heap0)

    def in_entry(self, key):
        return And(self.hasE, self.c.ex.by_name_exists(self.LE, key, names=H(self.c, "name", self.heap0)[0]))

    def spec(self, table, upto=None):
        c, h0 = self.c, self.heap0
        j, p = Ints("tj tp")
        key = Const("tkey", Elem)
        xe, xd = at(self.LE, j), at(self.LD, j)
        A = ForAll([j], Implies(And(self.hasE, j >= 0, j < self.LE.n), resolves(c, table, name_of(c, xe, h0), src_of(c, xe, h0))), patterns=[xe])
        lim = self.LD.n if upto is None else upto
        Bc = ForAll([j], Implies(And(self.hasD, j >= 0, j < lim, Not(self.in_entry(name_of(c, xd, h0)))), resolves(c, table, name_of(c, xd, h0), src_of(c, xd, h0))), patterns=[xd])
        tp = at(table, p)
        from_default = Exists([j], And(self.hasD, j >= 0, j < lim, tp == xd))
        Cc = ForAll([p], Implies(And(p >= 0, p < table.n), Or(self.in_entry(name_of(c, tp)), from_default)), patterns=[tp])
        return A, Bc, Cc


@P.fn(R, "Renames.get_renames_for_einsum")
def c_get_renames(c):
    self_ = c.arg("self", OBJ("Renames"))
    E = c.arg("einsum_name", ELEM)
    ex = c.ex
    c.local("rename", OPT(OBJ("EinsumRename")))
    c.modifies("tensor_accesses", "rank_variables", "name", "source")
    heap0 = ex.heap0_view() if c.mode == "verify" else c._old_heap
    einsums = ex.read_field(self_, "einsums", heap=heap0)
    p, q, i = Ints("wp wq wi")
    c.pre("entry_names_distinct", ForAll([p, q], Implies(And(p >= 0, p < q, q < einsums.n), name_of(c, at(einsums, p), heap0) != name_of(c, at(einsums, q), heap0))))
    for f in LISTS:
        c.pre(f"names_distinct_in_each_{f}", ForAll([i], Implies(And(i >= 0, i < einsums.n), distinct_names(c, lst(c, at(einsums, i), f, heap0), heap0)), patterns=[at(einsums, i)]))
    jj = Int("wj")
    for f in LISTS:
        l_i = lst(c, at(einsums, i), f, heap0)
        c.pre(f"{f}.renames_of_entries_allocated", ForAll([i, jj], Implies(And(i >= 0, i < einsums.n, jj >= 0, jj < l_i.n), And(P.alloc0(at(l_i, jj)), at(l_i, jj) != NULL)), patterns=[at(l_i, jj)]))
    c.pre("entries_allocated", ForAll([i], Implies(And(i >= 0, i < einsums.n), And(P.alloc0(at(einsums, i)), at(einsums, i) != NULL)), patterns=[at(einsums, i)]))
    iE = c.ghost("iE", IntSort(), index_of_entry(c, einsums, E, heap0))
    iD = c.ghost("iD", IntSort(), index_of_entry(c, einsums, DEFAULT, heap0))
    T = {f: Tables(c, einsums, iE, iD, f, heap0) for f in LISTS}
    res = c.result(OBJ("EinsumRename"))
    if c.mode == "call":
        ex.assume(Not(P.alloc0(res.ref)))

    def unopt(r):
        return r.val if isinstance(r, VV.OptV) else r

    for f in LISTS:
        for k_, nm in enumerate(("per_einsum_entry_resolves", "default_only_names_resolve_to_default", "nothing_else")):
            c.post(f"{f}.{nm}", lambda r, f=f, k_=k_: T[f].spec(lst(c, unopt(r).ref, f))[k_])
        c.post(f"{f}.names_distinct", lambda r, f=f: distinct_names(c, lst(c, unopt(r).ref, f)))
    # frame: nothing that existed before is changed (the entries are only read)
    FR = ("tensor_accesses", "rank_variables", "name", "source")

    def frame(f):
        o = Const("fo", Ref)
        cur, old = H(c, f), H(c, f, heap0)
        return ForAll([o], Implies(P.alloc0(o), And(*[Select(a, o) == Select(b, o) for a, b in zip(cur, old)])))

    for f in FR:
        c.post(f"frame.{f}", lambda r, f=f: frame(f))

    if c.mode != "verify":
        return

    def base(L, need_rename=True):
        out = [(f"frame.{f}", frame(f)) for f in FR]
        if not need_rename:
            return out, None
        rn = L.v("rename")
        out.append(("rename_is_a_new_object", And(Not(rn.isnone), Not(P.alloc0(rn.val.ref)), rn.val.ref != NULL)))
        return out, rn.val.ref

    def tables(rref, upto_by_field):
        out = []
        for f in LISTS:
            A, Bc, Cc = T[f].spec(lst(c, rref, f), upto=upto_by_field[f])
            out += [(f"{f}.entry_resolves", A), (f"{f}.visited_defaults_resolve", Bc), (f"{f}.nothing_else", Cc), (f"{f}.names_distinct", distinct_names(c, lst(c, rref, f)))]
        return out

    def inv_search(L):  # L0: for einsum in self.einsums: if einsum.name == einsum_name: ... break
        rn = L.v("rename")
        out, _ = base(L, need_rename=False)
        return out + [("no_match_so_far", And(rn.isnone, Or(iE == -1, iE >= L.k)))]

    def inv_outer(L):  # L1: for einsum in self.einsums (merge of the default entry)
        out, rref = base(L)
        done = lambda f: If(And(iD >= 0, iD < L.k), T[f].LD.n, IntVal(0))
        return out + tables(rref, {f: done(f) for f in LISTS})

    def inv_inner(which):  # L2 / L3: the two loops over the default entry's lists
        def inv(L):
            out, rref = base(L)
            ein = L.v("einsum")
            out.append(("einsum_is_the_default_entry", And(L.outer.k == iD, ein.ref == at(einsums, iD))))
            if which == "tensor_accesses":
                upto = {"tensor_accesses": L.k, "rank_variables": IntVal(0)}
            else:
                upto = {"tensor_accesses": T["tensor_accesses"].LD.n, "rank_variables": L.k}
            return out + tables(rref, upto)
        return inv

    c.invariant("L0", inv_search)
    c.invariant("L1", inv_outer)
    c.invariant("L2", inv_inner("tensor_accesses"))
    c.invariant("L3", inv_inner("rank_variables"))


# ---- Einsum._eval_expressions: the merge of Einsum-local renames with the top-level ones -----------
@P.slice(W, "Einsum._eval_expressions", "merge", "self.renames = RenameList(self.renames)", "for rank_variable_rename in default_renames.rank_variables")
def c_einsum_merge(c):
    self_ = c.var("self", OBJ("Einsum"))
    renames = c.var("renames", OBJ("Renames"))
    ex = c.ex
    c.modifies("renames")  # the loops only append to self.renames; the callee's own frame covers the rest
    heap0 = ex.heap0_view()
    einsums = ex.read_field(renames, "einsums", heap=heap0)
    local0 = ex.read_field(self_, "renames", heap=heap0)
    myname = name_of(c, self_.ref, heap0)
    p, q, i, jj = Ints("wp wq wi wj")
    # preconditions of get_renames_for_einsum (established by model validation / construction)
    c.pre("entry_names_distinct", ForAll([p, q], Implies(And(p >= 0, p < q, q < einsums.n), name_of(c, at(einsums, p), heap0) != name_of(c, at(einsums, q), heap0))))
    for f in LISTS:
        c.pre(f"names_distinct_in_each_{f}", ForAll([i], Implies(And(i >= 0, i < einsums.n), distinct_names(c, lst(c, at(einsums, i), f, heap0), heap0)), patterns=[at(einsums, i)]))
        l_i = lst(c, at(einsums, i), f, heap0)
        c.pre(f"{f}.renames_of_entries_allocated", ForAll([i, jj], Implies(And(i >= 0, i < einsums.n, jj >= 0, jj < l_i.n), And(P.alloc0(at(l_i, jj)), at(l_i, jj) != NULL)), patterns=[at(l_i, jj)]))
    c.pre("entries_allocated", ForAll([i], Implies(And(i >= 0, i < einsums.n), And(P.alloc0(at(einsums, i)), at(einsums, i) != NULL)), patterns=[at(einsums, i)]))
    c.pre("local_names_distinct", distinct_names(c, local0, heap0))
    c.pre("local_renames_allocated", ForAll([jj], Implies(And(jj >= 0, jj < local0.n), And(P.alloc0(at(local0, jj)), at(local0, jj) != NULL)), patterns=[at(local0, jj)]))
    iE = c.ghost("iE", IntSort(), index_of_entry(c, einsums, myname, heap0))
    iD = c.ghost("iD", IntSort(), index_of_entry(c, einsums, DEFAULT, heap0))
    T = {f: Tables(c, einsums, iE, iD, f, heap0) for f in LISTS}
    names0 = H(c, "name", heap0)[0]
    j = Int("mj")

    def final(res=None):
        return ex.read_field(self_, "renames")

    def local_has(key):
        return ex.by_name_exists(local0, key, names=names0)

    def merged(f):  # the list `default_renames.<f>` returned by get_renames_for_einsum
        return lst(c, ex.env.get("default_renames").ref, f)

    def shadowed(f, key):
        """a rename of list f does not reach the table if the Einsum defines the name itself or (for
        rank variables, merged second) a merged tensor rename already has it"""
        if f == "tensor_accesses":
            return local_has(key)
        return Or(local_has(key), ex.by_name_exists(merged("tensor_accesses"), key))

    # (1) the Einsum's own renames keep resolving to their own sources
    c.post("einsum_local_renames_resolve", lambda res: ForAll([j], Implies(And(j >= 0, j < local0.n), resolves(c, final(), name_of(c, at(local0, j), heap0), src_of(c, at(local0, j), heap0))), patterns=[at(local0, j)]))
    # (2) a name given under this Einsum's name in the top-level renames resolves to that source
    # (3) a name given only under `default` resolves to the default source
    #     -- unless shadowed (see above; local definitions and tensor renames come first)
    for f in LISTS:
        xe, xd = at(T[f].LE, j), at(T[f].LD, j)
        c.post(f"{f}.per_einsum_entry_resolves", lambda res, f=f, xe=xe: ForAll([j], Implies(And(T[f].hasE, j >= 0, j < T[f].LE.n, Not(shadowed(f, name_of(c, xe, heap0)))),
               resolves(c, final(), name_of(c, xe, heap0), src_of(c, xe, heap0))), patterns=[xe]))
        c.post(f"{f}.default_only_names_resolve_to_default", lambda res, f=f, xd=xd: ForAll([j], Implies(And(T[f].hasD, j >= 0, j < T[f].LD.n,
               Not(shadowed(f, name_of(c, xd, heap0))), Not(T[f].in_entry(name_of(c, xd, heap0)))),
               resolves(c, final(), name_of(c, xd, heap0), src_of(c, xd, heap0))), patterns=[xd]))
    c.post("merged_names_distinct", lambda res: distinct_names(c, final()))

    def inv(which):
        def f_(L):
            cur = final()
            out = [("names_distinct", distinct_names(c, cur)),
                   ("local_renames_resolve", ForAll([j], Implies(And(j >= 0, j < local0.n), resolves(c, cur, name_of(c, at(local0, j), heap0), src_of(c, at(local0, j), heap0))), patterns=[at(local0, j)]))]
            uptos = {}
            for f in LISTS:
                ml = merged(f)
                if f == which:
                    upto = L.k
                elif f == "tensor_accesses":
                    upto = ml.n  # tensor renames are all merged before the rank-variable loop starts
                else:
                    upto = IntVal(0)
                uptos[f] = upto
            pp = Int("mp")
            origin = Or(Exists([j], And(j >= 0, j < local0.n, at(cur, pp) == at(local0, j))),
                        *[Exists([j], And(j >= 0, j < uptos[f], at(cur, pp) == at(merged(f), j))) for f in LISTS])
            out.append(("every_element_is_local_or_a_visited_merged_rename", ForAll([pp], Implies(And(pp >= 0, pp < cur.n), origin), patterns=[at(cur, pp)])))
            for f in LISTS:
                ml, upto = merged(f), uptos[f]
                out.append((f"{f}.visited_merged_renames_resolve_unless_shadowed", ForAll([j], Implies(And(j >= 0, j < upto, Not(shadowed(f, name_of(c, at(ml, j))))),
                            resolves(c, cur, name_of(c, at(ml, j)), src_of(c, at(ml, j)))), patterns=[at(ml, j)])))
            return out
        return f_

    c.invariant("L0", inv("tensor_accesses"))
    c.invariant("L1", inv("rank_variables"))


# ---- Rename._eval_expressions: a mismatching expected_count is rejected ------------------------------
@P.fn(R, "Rename._eval_expressions", allow_varargs=True)
def c_rename_eval(c):
    self_ = c.arg("self", OBJ("Rename"))
    c.arg("symbol_table", VAL)
    c.result(TUP(OBJ("Rename"), VAL))
    is_set = lambda ref: P.class_tag(ref) == P.class_id("InvertibleSet")

    def ok(ev):
        ec = c.ex.read_field(ev, "expected_count")
        src = c.ex.read_field(ev, "source")
        return Or(ec.isnone, Not(is_set(src.ref)), SETLEN(src.ref) == ec.val)

    c.post("count_matches_on_normal_return", lambda r: ok(r.items[0]))
    c.raises("EvaluationError", when=None)
