"""C32 — the parallel runner returns each job's result in job order.

Real code: accelforge/util/parallel.py: parallel (all branches), its nested functions
yield_results (a generator) and f, and _dict_job.

Model of the dynamic values involved (theory in vf/contracts.py): a job is an opaque value
j; "running" it is  run(j) = apply(item(j,0), item(j,1), item(j,2))  -- exactly the real
expression  j[0](*j[1], **j[2]).  joblib is assumed (never proved):
  delayed(g)(a0, a1)            == the job  pack3(fnval(g), pack2(a0, a1), no_kwargs)
  Parallel(n_jobs, **args)(js)  == for SOME bijection pi of 0..len-1 (the completion order; the
        identity unless return_as == "generator_unordered"), the values run(js[pi(k)]), each once.
pi is a fresh uninterpreted function with only bijectivity assumed: the proof therefore
holds for every completion order and every worker count.
"""
import z3
from vf.dsl import *

P = Property("C32", "The parallel runner returns each job's result in job order")
F = "accelforge/util/parallel.py"
P.oracle = "C32"
T = P.theory
item, pack2, pack3, box, unbox, apply_, nokw = T.item, T.pack2, T.pack3, T.box_int, T.unbox_int, T.apply, T.nokw
P.assume_note("assumed contract (joblib): Parallel(n_jobs, return_as=m)(jobs) yields run(jobs[pi(k)]) for a bijection pi (identity unless m == 'generator_unordered'); delayed(g)(*a) is the job (g, a, {})")
P.assume_note("A-DISPATCH: applying the function value of a def to packed arguments runs that def; its verified postcondition is used for the packed call (hints dispatch.*)")
P.assume_note("generators are modelled by the sequence they yield; the consumer does not interleave observable effects with the producer (progress-bar calls are dropped)")
P.assume_note("pbar=None (progress-bar side effects are outside the property)")
P.drop_calls += ["pbar.update", "pbar.close"]
P.globals["N_PARALLEL_PROCESSES"] = Int("N_PARALLEL_PROCESSES")
P.field("par_unordered", BOOL)
P.field("delayed_fn", VAL)
P.classes |= {"Parallel", "Delayed"}


def run(j):
    return apply_(item(j, 0), item(j, 1), item(j, 2))


fnval = Function("fnval", Elem, Val)  # the opaque value of a named def
F_TAG = P.elem_of_str("parallel.f")
F_DICT = P.elem_of_str("_dict_job")
_a, _b = Consts("ha hb", Val)
# dispatch: calling the value of `f` / `_dict_job` with packed (x, job) runs the def; the right-hand
# sides are exactly the postconditions verified below for parallel.f and _dict_job
P.hint("dispatch.f", ForAll([_a, _b], apply_(fnval(F_TAG), pack2(_a, _b), nokw) == pack2(_a, run(_b)), patterns=[apply_(fnval(F_TAG), pack2(_a, _b), nokw)]))
P.hint("dispatch._dict_job", ForAll([_a, _b], apply_(fnval(F_DICT), pack2(_a, _b), nokw) == pack2(_a, run(_b)), patterns=[apply_(fnval(F_DICT), pack2(_a, _b), nokw)]))

STR_UNORDERED = P.elem_of_str("generator_unordered")
STR_GEN = P.elem_of_str("generator")
KEY_RETURN_AS = P.elem_of_str("return_as")


# ---- joblib (assumed) -------------------------------------------------------------------
@P.external("delayed", "joblib.delayed: delayed(g) is a callable that packs its arguments into the job (g, args, {})")
def c_delayed(c):
    g = c.arg("function", CONST(None))
    name = getattr(g, "name", None)
    c.applies(name in ("f", "_dict_job"))
    obj = c.ex.new_object("Delayed") if c.mode == "call" else None
    if c.mode == "call":
        c.ex.write_field(obj, "delayed_fn", fnval(F_TAG if name == "f" else F_DICT))
    c.result_is(obj)


def as_val(c, v):
    import vf.values as VV

    v = VV.lift(v)
    if VV.is_int(v):
        return box(v)
    return v


@P.external("__call__", "joblib.delayed(g)(a0, a1) == (g, (a0, a1), {})", cls="Delayed")
def c_delayed_call(c):
    self_ = c.arg("self", OBJ("Delayed"))
    a0 = as_val(c, c.arg("a0", CONST(None)))
    a1 = as_val(c, c.arg("a1", CONST(None)))
    c.result_is(pack3(c.field(self_, "delayed_fn"), pack2(a0, a1), nokw))


@P.external("Parallel", "joblib.Parallel(n_jobs=..., **args): only return_as matters to the model")
def c_Parallel(c):
    c.arg("n_jobs", INT)
    kw = c.arg("**", MAP(ELEM, ELEM), default=None)
    obj = c.ex.new_object("Parallel") if c.mode == "call" else None
    if c.mode == "call":
        import vf.values as VV

        if isinstance(kw, VV.MapV):
            unordered = And(Select(kw.dom, KEY_RETURN_AS), Select(kw.val, KEY_RETURN_AS) == STR_UNORDERED)
        else:
            unordered = BoolVal(False)
        c.ex.write_field(obj, "par_unordered", unordered)
    c.result_is(obj)


def permuted_results(c, out, jobs, ordered_if):
    """out is run(jobs[pi(k)]) for a bijection pi of [0, len); pi is the identity if ordered_if."""
    pi = Function(fresh_name("pi"), IntSort(), IntSort())
    pinv = Function(fresh_name("pi.inv"), IntSort(), IntSort())
    k, i = Int("k"), Int("i")
    n = jobs.n
    rng = lambda t: And(t >= 0, t < n)
    return [
        out.n == n,
        forall([k], Implies(rng(k), And(rng(pi(k)), pinv(pi(k)) == k, at(out, k) == run(at(jobs, pi(k))))), patterns=[at(out, k)]),
        forall([i], Implies(rng(i), And(rng(pinv(i)), pi(pinv(i)) == i)), patterns=[pinv(i), at(jobs, i)]),
        Implies(ordered_if, forall([k], Implies(rng(k), pi(k) == k), patterns=[pi(k)])),
    ]


@P.external("__call__", "joblib.Parallel(...)(jobs): every job is run exactly once; results arrive in job order unless return_as == 'generator_unordered', then in ANY order", cls="Parallel")
def c_Parallel_call(c):
    self_ = c.arg("self", OBJ("Parallel"))
    jobs = c.arg("jobs", SEQ(VAL))
    out = c.result(SEQ(VAL))
    for k_, f in enumerate(permuted_results(c, out, jobs, Not(c.field(self_, "par_unordered"))) if c.mode == "call" else []):
        c.post(f"joblib.{k_}", lambda r, f=f: f)


# ---- what "each job's result exactly once" means for a result sequence --------------------
def covers(out, jobs):
    """len(out) == len(jobs), every job's result occurs in out, and out holds nothing else."""
    i, k = Int("i"), Int("k")
    n = jobs.n
    return [
        ("same_length", out.n == n),
        ("every_job_result_present", forall([i], Implies(And(i >= 0, i < n), Exists([k], And(k >= 0, k < n, at(out, k) == run(at(jobs, i))))), patterns=[at(jobs, i)])),
        ("only_job_results", forall([k], Implies(And(k >= 0, k < n), Exists([i], And(i >= 0, i < n, at(out, k) == run(at(jobs, i))))), patterns=[at(out, k)])),
    ]


def in_order(out, jobs):
    k = Int("k")
    return forall([k], Implies(And(k >= 0, k < jobs.n), at(out, k) == run(at(jobs, k))), patterns=[at(out, k)])


# ---- _dict_job and parallel.f -------------------------------------------------------------
@P.fn(F, "_dict_job")
def c_dict_job(c):
    key = c.arg("key", VAL)
    f = c.arg("f", VAL)
    c.result(TUP(VAL, VAL))
    c.post("pairs_key_with_its_own_result", lambda r: And(r.items[0] == key, r.items[1] == run(f)))


@P.fn(F, "parallel.f")
def c_f(c):
    i = c.arg("i", INT)
    job = c.arg("job", VAL)
    c.result(TUP(INT, VAL))
    c.post("tags_result_with_its_index", lambda r: And(r.items[0] == i, r.items[1] == run(job)))


# ---- parallel.yield_results (generator) -----------------------------------------------------
@P.fn(F, "parallel.yield_results")
def c_yield_results(c):
    n_jobs = c.free("n_jobs", INT)
    args = c.free("args", MAP(ELEM, ELEM))
    jobs = c.free("jobs", SEQ(VAL))
    c.free("pbar", CONST(None))
    out = c.yields(SEQ(VAL))
    unordered = And(Select(args.dom, KEY_RETURN_AS), Select(args.val, KEY_RETURN_AS) == STR_UNORDERED)
    for nm, f in [(n, (lambda r, n=n: dict(covers(r, jobs))[n])) for n in ("same_length", "every_job_result_present", "only_job_results")]:
        c.post(nm, f)
    c.post("in_job_order_unless_unordered", lambda r: Implies(Not(unordered), in_order(r, jobs)))

    def inv(L):
        y, src = L.v("__yielded__"), L.seq
        j = Int("j")
        return [
            ("yielded_is_prefix_of_source", And(y.n == L.k, forall([j], Implies(And(j >= 0, j < L.k), at(y, j) == at(src, j)), patterns=[at(y, j)]))),
        ]

    c.invariant("L0", inv)


# ---- parallel ----------------------------------------------------------------------------------
def parallel_args(c, jobs_type, return_as):
    jobs = c.arg("jobs", jobs_type)
    n_jobs = c.arg("n_jobs", OPT(INT), default=None)
    c.arg("pbar", CONST(None), default=None)
    c.arg("pbar_position", CONST(0), default=0)
    ra = c.arg("return_as", CONST(return_as), default=None)
    c.local("args", MAP(ELEM, ELEM))
    c.local("results", SEQ(OPT(VAL)))
    c.pre("worker_count_positive", And(Or(n_jobs.isnone, n_jobs.val >= 1), P.globals["N_PARALLEL_PROCESSES"] >= 1))
    return jobs, n_jobs, ra


def is_str(v, s):
    import vf.values as VV

    return isinstance(v, VV.StrV) and v.s == s


@P.fn(F, "parallel", label="list")
def c_parallel_list(c):
    """list of jobs, default return_as: the i-th result is the i-th job's result"""
    import vf.values as VV

    jobs, n_jobs, ra = parallel_args(c, SEQ(VAL), None)
    c.applies(isinstance(jobs, VV.SeqV) and ra is VV.NONE)
    res = c.result(SEQ(OPT(VAL)))
    i = Int("i")

    def elem_ok(r, i):
        if isinstance(r.shape, VV.OptShape):  # results[...] built by the tagging loop
            isn, val = r.arr[0], r.arr[1]
            return And(Not(Select(isn, i)), Select(val, i) == run(at(jobs, i)))
        return at(r, i) == run(at(jobs, i))  # list comprehension of the sequential branch

    c.post("one_result_per_job", lambda r: r.n == jobs.n)
    c.post("ith_result_is_ith_jobs_result", lambda r: forall([i], Implies(And(i >= 0, i < jobs.n), elem_ok(r, i))))

    def inv(L):
        src, res_ = L.seq, L.v("results")
        orig = L.entry("__orig_jobs__") if False else jobs
        k2 = Int("k2")
        isn, val = res_.arr[0], res_.arr[1]
        idx = lambda t: unbox(item(at(src, t), 0))
        return [
            ("results_length", res_.n == jobs.n),
            ("arrived_results_are_in_their_jobs_slot", forall([k2], Implies(And(k2 >= 0, k2 < L.k), And(idx(k2) >= 0, idx(k2) < jobs.n, Not(Select(isn, idx(k2))), Select(val, idx(k2)) == run(at(jobs, idx(k2))))), patterns=[at(src, k2)])),
        ]

    c.invariant("L1", inv)  # L0 is the loop of the nested yield_results


@P.fn(F, "parallel", label="list_unordered")
def c_parallel_unordered(c):
    """list of jobs, return_as='generator_unordered' (what the dict branch asks for): every
    job's result exactly once, in any order"""
    import vf.values as VV

    jobs, n_jobs, ra = parallel_args(c, SEQ(VAL), "generator_unordered")
    c.applies(isinstance(jobs, VV.SeqV) and is_str(ra, "generator_unordered"))
    c.result(SEQ(VAL))
    for nm in ("same_length", "every_job_result_present", "only_job_results"):
        c.post(nm, lambda r, nm=nm: dict(covers(r, jobs))[nm])


@P.fn(F, "parallel", label="dict")
def c_parallel_dict(c):
    """dict of jobs: same keys, each key mapped to its own job's result (key order is not part of the
    property: dicts compare equal regardless of insertion order)"""
    import vf.values as VV

    jobs, n_jobs, ra = parallel_args(c, MAP(VAL, VAL), None)
    c.applies(isinstance(jobs, VV.MapV))
    c.result(MAP(VAL, VAL))
    k = Const("k", Val)
    j = Int("j")
    c.post("same_keys", lambda r: forall([k], Select(r.dom, k) == Select(jobs.dom, k)))
    c.post("each_key_maps_to_its_own_jobs_result", lambda r: forall([k], Implies(Select(jobs.dom, k), Select(r.val, k) == run(Select(jobs.val, k))), patterns=[Select(jobs.dom, k)]))
