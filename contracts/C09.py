"""C09 — symbolic sign and monotonicity verdicts hold at every point of the box.

The comparator decides through sympy's assumption system and function_range; none of that is within the VC
generator's reach, so the property is decided by the bounded check (oracles/C09.py) and the check is
registered at level `exploration`.  Under contract (proof level) is only the verdict-combination glue
ComparisonResult.__or__ of make_tile_shapes.py: combining the verdicts of two functions is sound both for
their SUM (a + b has the combined sign) and for a CASE SPLIT (a value that is a value of either function
has the combined sign).
"""
import z3
from vf.dsl import *
import vf.values as VV

P = Property("C09", "Symbolic sign and monotonicity verdicts hold at every point of the box")
F = "accelforge/mapper/FFM/_make_pmappings/make_pmappings_from_templates/make_tile_shapes.py"
P.oracle = "C09"
P.claim_level = "exploration"
P.classes |= {"ComparisonResult"}
GEQ, LEQ, EQ, UNK = (P.elem_of_str(s) for s in ("ALWAYS_GEQ_THAN_ZERO", "ALWAYS_LEQ_THAN_ZERO", "ALWAYS_EQUAL_TO_ZERO", "unknown"))
for attr, e in (("ALWAYS_GEQ_THAN_ZERO", GEQ), ("ALWAYS_LEQ_THAN_ZERO", LEQ), ("ALWAYS_EQUAL_TO_ZERO", EQ), ("UNKNOWN", UNK)):
    P.class_consts[("ComparisonResult", attr)] = e
P.assume_note("Enum members are distinct constants compared by identity; `self == other` on Enum members is identity")


def holds(verdict, x):
    """what a verdict claims about a value x of the function"""
    return And(Implies(verdict == GEQ, x >= 0), Implies(verdict == LEQ, x <= 0), Implies(verdict == EQ, x == 0))


@P.fn(F, "ComparisonResult.__or__")
def c_or(c):
    a = c.arg("self", ELEM)
    b = c.arg("other", ELEM)
    member = lambda v: Or(v == GEQ, v == LEQ, v == EQ, v == UNK)
    c.pre("both_are_verdicts", And(member(a), member(b), Distinct(GEQ, LEQ, EQ, UNK)))
    c.result(ELEM)
    x, y = Reals("vx vy")
    c.post("a_verdict", lambda r: member(r))
    c.post("sound_for_the_sum_of_the_two_functions", lambda r: ForAll([x, y], Implies(And(holds(a, x), holds(b, y)), holds(r, x + y))))
    c.post("sound_for_a_case_split_between_the_two_functions", lambda r: ForAll([x], Implies(Or(holds(a, x), holds(b, x)), Or(holds(r, x), r == UNK))))
    c.post("sound_for_a_case_split_strict", lambda r: ForAll([x], Implies(And(Or(holds(a, x), holds(b, x)), a != UNK, b != UNK), holds(r, x))))
