"""C26 — component totals count every instance of the component.

Real code: accelforge/frontend/spec.py  Spec.calculate_component_costs  (SLICE: the body of the loop
over the architecture, from `global_fanout = 1` to the write-back).

Statement: total_area = area x #instances, total_leak_power = leak_power x #instances, where
#instances = (own spatial fan-out) x product of the fan-outs of the Spatialable non-Compute nodes
above the component (its `parents`).  The product over the parents list is the spec function
parents_fanout (defined by recursion over the list prefix).

Findings:  F5 (an earlier sibling Compute's fan-out was multiplied in) was repaired in /repo (fix:
commit).  F4 (the component's OWN fan-out is not multiplied in) is a recorded known finding: the
obvious repair changes pinned regression goldens (tpu_v4i has a Memory with its own fan-out).

Which nodes are in `parents` is decided by ArchNode.iterate_hierarchically, a recursive generator
over a shared, mutated list, outside the VC generator's reach: it is covered by the BOUNDED
exhaustive tree check in oracles/C26.py (every architecture tree up to a stated size), never
counted as proved.
"""
import z3
from vf.dsl import *
import vf.values as VV
from contracts import archmodel

P = Property("C26", "Component totals count every instance of the component")
F = "accelforge/frontend/spec.py"
P.oracle = "C26"
archmodel.install(P)
P.assume_note("A-REAL: areas, leak powers and fan-outs are reals; get_fanout is pure")
P.assume_note("assumed: Component.calculate_area / calculate_leak_power (in_place=False) return a fresh copy whose area / leak_power is set; ArchNode.find returns an existing node")
P.assume_note("BOUNDED (not proved): ArchNode.iterate_hierarchically yields, for every named node, exactly the named nodes above it on its path (earlier siblings in enclosing Hierarchicals; not the contents of Forks / Array branches that do not contain it) -- exhaustive trees up to the bound in oracles/C26.py")

COSTS = ["area", "total_area", "leak_power", "total_leak_power", "energy", "throughput"]
P.field("arch", OBJ("Arch"))
P.field("name", ELEM)
P.field("_costs_calculated", SET(ELEM))
for f in COSTS:
    P.field(f, OPT(REAL))
P.field("actions", SEQ(OBJ("Action")))
P.field("component_modeling_log", SEQ(VAL))
P.field("component_model", VAL)
P.by_name_lists |= {"Action"}
P.classes |= {"Action"}
FAN = Function("fanout_of", Ref, RealSort())
RA = ArraySort(IntSort(), Ref)
PF = Function("parents_fanout", RA, IntSort(), RealSort())  # product over the first m parents


def counts(r):
    """a parent multiplies the instance count iff it is Spatialable and not a Compute"""
    return And(archmodel.is_a(P, r, "Spatialable"), Not(archmodel.is_a(P, r, "Compute")))


_a = Const("pa", RA)
_m = Int("pm")
P.hint("def.parents_fanout.empty", ForAll([_a], PF(_a, 0) == 1, patterns=[PF(_a, 0)]))
P.hint("def.parents_fanout.step", ForAll([_a, _m], Implies(_m >= 0, PF(_a, _m + 1) == PF(_a, _m) * If(counts(Select(_a, _m)), FAN(Select(_a, _m)), 1)), patterns=[PF(_a, _m + 1)]))


@P.external("find", "ArchNode.find(name): the existing node with that name", modifies=[])
def c_find(c):
    c.arg("self", OBJ("Arch"))
    nm = c.arg("name", ELEM)
    c.result(OBJ())
    c.post("an_existing_node_with_that_name", lambda r: And(P.alloc0(r.ref), r.ref != NULL, Select(c.ex.heap_arrays("name")[0], r.ref) == nm))


@P.external("get_fanout", "Spatialable.get_fanout(): pure", modifies=[])
def c_fanout(c):
    s = c.arg("self", OBJ())
    c.result_is(FAN(s.ref))


def calc_contract(which, field):
    def contract(c):
        s = c.arg("self", OBJ())
        c.arg("component_models", VAL)
        c.modifies(*COSTS, "actions", "component_modeling_log", "component_model", "name", "_costs_calculated")
        r = c.result(OBJ())
        old = c._old_heap
        o = Const("co", Ref)
        c.post("fresh_copy", lambda r: And(Not(P.alloc0(r.ref)), r.ref != NULL, P.class_tag(r.ref) == P.class_tag(s.ref)))
        if field:
            c.post("value_is_set", lambda r: Not(c.ex.read_field(r, field).isnone))
        for f in COSTS + ["actions", "component_modeling_log", "component_model", "name", "_costs_calculated"]:
            def fr(r, f=f):
                cur, was = c.ex.heap_arrays(f), c.ex.heap_arrays(f, old)
                return ForAll([o], Implies(o != r.ref, And(*[Select(a, o) == Select(b, o) for a, b in zip(cur, was)])))
            c.post(f"frame.{f}", fr)
        j = Int("cj")
        c.post("copied_actions_keep_names", lambda r: BoolVal(True))
    return contract


for _m_, _f in (("calculate_area", "area"), ("calculate_action_energy", None), ("calculate_action_throughput", None), ("calculate_leak_power", "leak_power")):
    P.external(_m_, f"Component.{_m_}(models) with in_place=False: returns a copy carrying the calculated values")(calc_contract(_m_, _f))


@P.slice(F, "Spec.calculate_component_costs", "totals_of_one_component", "global_fanout = 1", "orig._costs_calculated = calculated")
def c_totals(c):
    self_ = c.var("self", OBJ("Spec"))
    leaf = c.var("leaf", OBJ())
    parents = c.var("parents", SEQ(OBJ()))
    c.var("models", VAL)
    flags = {k: c.var(k, BOOL) for k in ("area", "energy", "throughput", "leak")}
    c.local("calculated", SET(ELEM))
    c.modifies(*COSTS, "_costs_calculated", "component_modeling_log", "component_model", "actions", "name")
    ex = c.ex
    heap0 = ex.heap0_view()
    c.pre("leaf_is_an_existing_component", And(P.alloc0(leaf.ref), leaf.ref != NULL, archmodel.is_a(P, leaf.ref, "Component")))
    c.pre("unique_node_name", ForAll([Const("uo", Ref)], Implies(And(P.alloc0(Const("uo", Ref)), Select(ex.heap_arrays("name", heap0)[0], Const("uo", Ref)) == Select(ex.heap_arrays("name", heap0)[0], leaf.ref)), Const("uo", Ref) == leaf.ref)))
    marks0 = Select(ex.heap_arrays("_costs_calculated", heap0)[0], leaf.ref)
    # (a component may already be costed by an earlier call: its per-instance values are then kept --
    #  that is C27 -- and the totals are still recomputed from them, see the postconditions)
    own = FAN(leaf.ref)
    instances = PF(parents.arr, parents.n) * own
    # known finding F4: the component's own fan-out is not counted
    c.known_class("F4", own != 1)
    # exceptions of the write-back (a missing action name, an unset value) are outside this property
    for exc in ("KeyError", "TypeError", "ValueError", "AttributeError"):
        c.raises(exc)

    def total(kind, per, tot):
        def post(res):
            p_, t_ = ex.read_field(leaf, per), ex.read_field(leaf, tot)
            return Implies(flags[kind], And(Not(p_.isnone), Not(t_.isnone), t_.val == p_.val * instances))
        return post

    # what a later call relies on (C27): the kinds calculated now are recorded on the component
    KIND_OF = {"area": "area", "energy": "energy", "throughput": "throughput", "leak": "leak"}

    def marked(res):
        m = Select(ex.heap_arrays("_costs_calculated")[0], leaf.ref)
        return And(*[Implies(flags[k], Select(m, P.elem_of_str(k))) for k in KIND_OF] + [ForAll([me_], Implies(Select(marks0, me_), Select(m, me_)))])

    me_ = Const("mk", Elem)
    c.post("requested_kinds_are_recorded_as_calculated", marked)
    c.post("total_area_counts_every_instance", total("area", "area", "total_area"))
    c.post("total_leak_power_counts_every_instance", total("leak", "leak_power", "total_leak_power"))

    def inv_fanout(L):  # for p in parents
        return [("global_fanout_is_the_product_over_visited_parents", L.v("global_fanout") == PF(parents.arr, L.k))]

    c.invariant("L0", inv_fanout)
