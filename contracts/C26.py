"""C26 — component totals count every instance of the component.

Real code: accelforge/frontend/spec.py  Spec.calculate_component_costs  (SLICE: the body of the loop
over the architecture, from `global_fanout = 1` to the write-back).

Statement: total_area = area x #instances, total_leak_power = leak_power x #instances, where
#instances = (own spatial fan-out) x product of the fan-outs of the Spatialable non-Compute nodes
above the component (its `parents`).  The product over the parents list is the spec function
parents_fanout (defined by recursion over the list prefix).

Findings:  F5 (an earlier sibling Compute's fan-out was multiplied in) was repaired in /repo (fix:
commit).  F4 (the component's OWN fan-out is not multiplied in) is a recorded known finding: the
obvious repair changes pinned regression goldens (tpu_v4i has a Memory with its own fan-out).

Which nodes are in `parents` is decided by ArchNode.iterate_hierarchically, a recursive generator
over a shared, mutated list, outside the VC generator's reach: it is covered by the BOUNDED
exhaustive tree check in oracles/C26.py (every architecture tree up to a stated size), never
counted as proved.
"""
import z3
from vf.dsl import *
import vf.values as VV
from contracts import archmodel

P = Property("C26", "Component totals count every instance of the component")
F = "accelforge/frontend/spec.py"
P.oracle = "C26"
archmodel.install(P)
P.assume_note("A-REAL: areas, leak powers and fan-outs are reals; get_fanout is pure")
P.assume_note("assumed: Component.calculate_area / calculate_leak_power (in_place=False) return a fresh copy whose area / leak_power is set; ArchNode.find returns an existing node")
P.assume_note("BOUNDED (not proved): ArchNode.iterate_hierarchically yields, for every named node, exactly the named nodes above it on its path (earlier siblings in enclosing Hierarchicals; not the contents of Forks / Array branches that do not contain it) -- exhaustive trees up to the bound in oracles/C26.py")

COSTS = ["area", "total_area", "leak_power", "total_leak_power", "energy", "throughput"]
P.field("arch", OBJ("Arch"))
P.field("name", ELEM)
P.field("_costs_calculated", SET(ELEM))
for f in COSTS:
    P.field(f, OPT(REAL))
P.field("actions", SEQ(OBJ("Action")))
P.field("component_modeling_log", SEQ(VAL))
P.field("component_model", VAL)
P.by_name_lists |= {"Action"}
P.classes |= {"Action"}
FAN = Function("fanout_of", Ref, RealSort())
RA = ArraySort(IntSort(), Ref)
PF = Function("parents_fanout", RA, IntSort(), RealSort())  # product over the first m parents


def counts(r):
    """a parent multiplies the instance count iff it is Spatialable and not a Compute"""
    return And(archmodel.is_a(P, r, "Spatialable"), Not(archmodel.is_a(P, r, "Compute")))


_a = Const("pa", RA)
_m = Int("pm")
P.hint("def.parents_fanout.empty", ForAll([_a], PF(_a, 0) == 1, patterns=[PF(_a, 0)]))
P.hint("def.parents_fanout.step", ForAll([_a, _m], Implies(_m >= 0, PF(_a, _m + 1) == PF(_a, _m) * If(counts(Select(_a, _m)), FAN(Select(_a, _m)), 1)), patterns=[PF(_a, _m + 1)]))


@P.external("find", "ArchNode.find(name): the existing node with that name", modifies=[])
def c_find(c):
    c.arg("self", OBJ("Arch"))
    nm = c.arg("name", ELEM)
    c.result(OBJ())
    c.post("an_existing_node_with_that_name", lambda r: And(P.alloc0(r.ref), r.ref != NULL, Select(c.ex.heap_arrays("name")[0], r.ref) == nm))


@P.external("get_fanout", "Spatialable.get_fanout(): pure", modifies=[])
def c_fanout(c):
    s = c.arg("self", OBJ())
    c.result_is(FAN(s.ref))


def calc_contract(which, field):
    def contract(c):
        s = c.arg("self", OBJ())
        c.arg("component_models", VAL)
        c.modifies(*COSTS, "actions", "component_modeling_log", "component_model", "name", "_costs_calculated")
        r = c.result(OBJ())
        old = c._old_heap
        o = Const("co", Ref)
        c.post("fresh_copy", lambda r: And(Not(P.alloc0(r.ref)), r.ref != NULL, P.class_tag(r.ref) == P.class_tag(s.ref)))
        if field:
            c.post("value_is_set", lambda r: Not(c.ex.read_field(r, field).isnone))
        for f in COSTS + ["actions", "component_modeling_log", "component_model", "name", "_costs_calculated"]:
            def fr(r, f=f):
                cur, was = c.ex.heap_arrays(f), c.ex.heap_arrays(f, old)
                return ForAll([o], Implies(o != r.ref, And(*[Select(a, o) == Select(b, o) for a, b in zip(cur, was)])))
            c.post(f"frame.{f}", fr)
        j = Int("cj")
        c.post("copied_actions_keep_names", lambda r: BoolVal(True))
    return contract


for _m_, _f in (("calculate_area", "area"), ("calculate_action_energy", None), ("calculate_action_throughput", None), ("calculate_leak_power", "leak_power")):
    P.external(_m_, f"Component.{_m_}(models) with in_place=False: returns a copy carrying the calculated values")(calc_contract(_m_, _f))


@P.slice(F, "Spec.calculate_component_costs", "totals_of_one_component", "global_fanout = 1", "orig._costs_calculated = calculated")
def c_totals(c):
    self_ = c.var("self", OBJ("Spec"))
    leaf = c.var("leaf", OBJ())
    parents = c.var("parents", SEQ(OBJ()))
    c.var("models", VAL)
    flags = {k: c.var(k, BOOL) for k in ("area", "energy", "throughput", "leak")}
    c.local("calculated", SET(ELEM))
    c.modifies(*COSTS, "_costs_calculated", "component_modeling_log", "component_model", "actions", "name")
    ex = c.ex
    heap0 = ex.heap0_view()
    c.pre("leaf_is_an_existing_component", And(P.alloc0(leaf.ref), leaf.ref != NULL, archmodel.is_a(P, leaf.ref, "Component")))
    c.pre("unique_node_name", ForAll([Const("uo", Ref)], Implies(And(P.alloc0(Const("uo", Ref)), Select(ex.heap_arrays("name", heap0)[0], Const("uo", Ref)) == Select(ex.heap_arrays("name", heap0)[0], leaf.ref)), Const("uo", Ref) == leaf.ref)))
    marks0 = Select(ex.heap_arrays("_costs_calculated", heap0)[0], leaf.ref)
    # (a component may already be costed by an earlier call: its per-instance values are then kept --
    #  that is C27 -- and the totals are still recomputed from them, see the postconditions)
    own = FAN(leaf.ref)
    instances = PF(parents.arr, parents.n) * own
    # known finding F4: the component's own fan-out is not counted
    c.known_class("F4", own != 1)
    # exceptions of the write-back (a missing action name, an unset value) are outside this property
    for exc in ("KeyError", "TypeError", "ValueError", "AttributeError"):
        c.raises(exc)

    def total(kind, per, tot):
        def post(res):
            p_, t_ = ex.read_field(leaf, per), ex.read_field(leaf, tot)
            return Implies(flags[kind], And(Not(p_.isnone), Not(t_.isnone), t_.val == p_.val * instances))
        return post

    # what a later call relies on (C27): the kinds calculated now are recorded on the component
    KIND_OF = {"area": "area", "energy": "energy", "throughput": "throughput", "leak": "leak"}

    def marked(res):
        m = Select(ex.heap_arrays("_costs_calculated")[0], leaf.ref)
        return And(*[Implies(flags[k], Select(m, P.elem_of_str(k))) for k in KIND_OF] + [ForAll([me_], Implies(Select(marks0, me_), Select(m, me_)))])

    me_ = Const("mk", Elem)
    c.post("requested_kinds_are_recorded_as_calculated", marked)
    c.post("total_area_counts_every_instance", total("area", "area", "total_area"))
    c.post("total_leak_power_counts_every_instance", total("leak", "leak_power", "total_leak_power"))

    def inv_fanout(L):  # for p in parents
        return [("global_fanout_is_the_product_over_visited_parents", L.v("global_fanout") == PF(parents.arr, L.k))]

    c.invariant("L0", inv_fanout)


# ==== ArchNode.iterate_hierarchically: WHICH nodes are the parents of a node ================================
# (whole function, recursive generator with an in-out parents list; trees of Hierarchical / Fork / leaves --
#  Array nodes are outside this contract and stay with the bounded tree check)
S2 = "accelforge/frontend/arch/structure.py"
P.field("nodes", SEQ(OBJ("?")))
P.field_owners["name"] = ["Leaf", "Array"]
P.generic_seq_mem(Ref)
LO = Function("leaf_lo", Ref, IntSort())
HI = Function("leaf_hi", Ref, IntSort())
LEAFAT = Function("leaf_at", IntSort(), Ref)
CIDX = Function("child_index_of_leaf", Ref, IntSort(), IntSort())
HEIGHT = Function("height", Ref, IntSort())
VIS = Function("is_parent_within", Ref, IntSort(), IntSort(), BoolSort())   # VIS(b, u, t): leaf u is a parent of leaf t, both below b
EXPO = Function("is_exported_from", Ref, IntSort(), BoolSort())            # EXPO(b, u): leaf u below b is a parent of what follows b
is_hier = lambda r: archmodel.is_a(P, r, "Hierarchical")
is_fork = lambda r: archmodel.is_a(P, r, "Fork")
is_leaf = lambda r: archmodel.is_a(P, r, "Leaf")


def tree_axioms2(ex):
    NA, NN = ex.heap_arrays("nodes", ex.heap0_view())
    b, x = Consts("wb wx", Ref)
    i, j, t, u = Ints("wi wj wt wu")
    ch = lambda b_, i_: Select(Select(NA, b_), i_)
    m = lambda b_: Select(NN, b_)
    kid = ch(b, i)
    A = []
    A.append(("children", ForAll([b, i], Implies(And(is_hier(b), i >= 0, i < m(b)), And(
        kid != NULL, P.alloc0(kid), Or(is_hier(kid), is_leaf(kid)), Not(And(is_hier(kid), is_leaf(kid))), LO(b) <= LO(kid), HI(kid) <= HI(b), LO(kid) <= HI(kid), HEIGHT(kid) < HEIGHT(b), HEIGHT(kid) >= 0,
        Implies(i + 1 < m(b), HI(kid) == LO(ch(b, i + 1))), Implies(i == 0, LO(kid) == LO(b)), Implies(i == m(b) - 1, HI(kid) == HI(b)))), patterns=[ch(b, i)])))
    A.append(("children_ordered", ForAll([b, i, j], Implies(And(is_hier(b), i >= 0, i < j, j < m(b)), HI(ch(b, i)) <= LO(ch(b, j))), patterns=[z3.MultiPattern(ch(b, i), ch(b, j))])))
    A.append(("branch", ForAll([b], Implies(is_hier(b), And(m(b) >= 0, LO(b) <= HI(b), LO(b) >= 0, Implies(m(b) == 0, HI(b) == LO(b)), HEIGHT(b) >= 0)), patterns=[m(b)])))
    A.append(("leaf", ForAll([x], Implies(is_leaf(x), And(HI(x) == LO(x) + 1, LEAFAT(LO(x)) == x, LO(x) >= 0)), patterns=[LO(x)])))
    A.append(("child_of_leaf_rank", ForAll([b, t], Implies(And(is_hier(b), LO(b) <= t, t < HI(b)), And(CIDX(b, t) >= 0, CIDX(b, t) < m(b), LO(ch(b, CIDX(b, t))) <= t, t < HI(ch(b, CIDX(b, t))))), patterns=[CIDX(b, t)])))
    # the statement: parents of a node = the named nodes before it on its path (children of a hierarchy are stacked;
    # what is inside a Fork is above the rest of that Fork only)
    ku, kt = ch(b, CIDX(b, u)), ch(b, CIDX(b, t))
    A.append(("def_exported", ForAll([b, u], Implies(And(is_hier(b), LO(b) <= u, u < HI(b)),
              EXPO(b, u) == And(Not(is_fork(b)), Or(is_leaf(ku), EXPO(ku, u)))), patterns=[EXPO(b, u)])))
    A.append(("def_exported_leaf", ForAll([x, u], Implies(is_leaf(x), EXPO(x, u) == (u == LO(x))), patterns=[EXPO(x, u)])))
    A.append(("def_parent_within", ForAll([b, u, t], Implies(And(is_hier(b), LO(b) <= u, u < t, t < HI(b)),
              VIS(b, u, t) == If(CIDX(b, u) == CIDX(b, t), VIS(kt, u, t), Or(is_leaf(ku), And(is_hier(ku), Not(is_fork(ku)), EXPO(ku, u))))), patterns=[VIS(b, u, t)])))
    return A


PARS = SEQ(OBJ("?"))
YIELD = TUP(OBJ("?"), PARS)


@P.fn(S2, "ArchNode.iterate_hierarchically", inout=["_parents"])
def c_iterate(c):
    self_ = c.arg("self", OBJ("?"))
    par0 = c.arg("_parents", OPT(PARS), default=None)
    ex = c.ex
    c.local("_parents", PARS)
    s = self_.ref
    if c.mode == "verify":
        for nm_, ax in tree_axioms2(ex):
            c.pre("tree." + nm_, ax)
    c.pre("self_is_a_node_of_the_tree", And(s != NULL, Or(is_hier(s), is_leaf(s)), Not(And(is_hier(s), is_leaf(s)))))
    c.decreases(HEIGHT(s))
    P0 = par0.val if isinstance(par0, VV.OptV) else par0
    given = Not(par0.isnone) if isinstance(par0, VV.OptV) else BoolVal(True)
    in_p0 = lambda x: And(given, mem(P0, x))
    final = c.inout("_parents", PARS)
    Y = c.yields(SEQ(YIELD))
    x, = Consts("ix", Ref)
    k, u = Ints("ik iu")
    lo, hi = LO(s), HI(s)

    def parents_of(Yv, k_):
        na, pa, pn = arrs_of(Yv)
        return Select(na, k_), SeqV(VV.ObjShape("?"), Select(pa, k_), Select(pn, k_))

    def yields_spec(Yv, upto, base_mem):
        """entries for the leaves lo .. upto-1: the leaf, and as parents exactly the given ones plus its parents below self"""
        Yv = ex.materialize(Yv)
        node = lambda k_: parents_of(Yv, k_)[0]
        pars = lambda k_: parents_of(Yv, k_)[1]
        return [
            ("one_entry_per_named_node_in_depth_first_order", And(Yv.n == upto - lo, forall([k], Implies(And(k >= 0, k < Yv.n), node(k) == LEAFAT(lo + k)), patterns=[node(k)]))),
            ("parents_are_the_given_ones_and_the_nodes_before_it_on_its_path", forall([k, x], Implies(And(k >= 0, k < Yv.n),
                mem(pars(k), x) == Or(base_mem(x), And(is_leaf(x), lo <= LO(x), LO(x) < lo + k, LEAFAT(LO(x)) == x, VIS(s, LO(x), lo + k)))), patterns=[mem(pars(k), x)])),
        ]

    def final_spec(fin, upto_children_exported):
        return forall([x], mem(fin, x) == Or(in_p0(x), upto_children_exported(x)), patterns=[mem(fin, x)])

    exported_all = lambda x_: And(is_leaf(x_), lo <= LO(x_), LO(x_) < hi, LEAFAT(LO(x_)) == x_, EXPO(s, LO(x_)))
    for nm, _ in [("a", 0)]:
        pass
    c.post("one_entry_per_named_node_in_depth_first_order", lambda r: yields_spec(r, hi, in_p0)[0][1])
    c.post("parents_are_the_given_ones_and_the_nodes_before_it_on_its_path", lambda r: yields_spec(r, hi, in_p0)[1][1])
    if c.mode == "call":
        ex.assume(final_spec(final, exported_all))
        return
    c.post("callers_list_gains_exactly_the_nodes_that_are_above_what_follows", lambda r: Implies(given, final_spec(c.final("_parents"), exported_all)))
    NA, NN = ex.heap_arrays("nodes", ex.heap0_view())
    kids_n = Select(NN, s)
    kid = lambda j_: Select(Select(NA, s), j_)

    def inv(L):
        bound = If(L.k < kids_n, LO(kid(L.k)), hi)
        cur = L.v("_parents")
        cur = cur.val if isinstance(cur, VV.OptV) else cur
        exported_so_far = lambda x_: And(is_leaf(x_), lo <= LO(x_), LO(x_) < bound, LEAFAT(LO(x_)) == x_, Or(is_fork(s), EXPO(s, LO(x_))) if False else
                                         And(CIDX(s, LO(x_)) < L.k, Or(is_leaf(kid(CIDX(s, LO(x_)))), And(is_hier(kid(CIDX(s, LO(x_)))), Not(is_fork(kid(CIDX(s, LO(x_))))), EXPO(kid(CIDX(s, LO(x_))), LO(x_))))))
        return yields_spec(L.v("__yielded__"), bound, in_p0) + [
            ("current_parents_are_the_given_ones_and_the_exported_nodes_of_the_children_seen", forall([x], mem(cur, x) == Or(in_p0(x), exported_so_far(x)), patterns=[mem(cur, x)])),
        ]

    c.invariant("L1", inv)   # L0 is the loop of the Array branch (unreachable under the no-Array precondition)
