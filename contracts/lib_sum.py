"""Shared lemma library: finite sums  sum_int(a, lo, hi) = a[lo] + ... + a[hi-1]  (the engine's
model of Python's sum() over a sequence).  `install(P)` adds the defining axioms as hints and the
lemmas as lemma VCs of property P."""
import z3
from vf.dsl import *


def install(P):
    S = P.theory.sum_int
    IA = ArraySort(IntSort(), IntSort())
    a, b = Consts("sa sb", IA)
    lo, hi, k, i = Ints("slo shi sk si")
    # definition of sum_int by recursion on the upper end
    P.hint("def.sum.empty", ForAll([a, lo], S(a, lo, lo) == 0, patterns=[S(a, lo, lo)]))
    P.hint("def.sum.step", ForAll([a, lo, hi], Implies(hi > lo, S(a, lo, hi) == S(a, lo, hi - 1) + Select(a, hi - 1)), patterns=[S(a, lo, hi)]))

    @P.lemma("SUM", uses=[])
    def lemma_sum(L):
        # extensionality on the summed range, by induction on the length
        stmt = lambda m: Implies(ForAll([i], Implies(And(i >= 0, i < m), Select(a, i) == Select(b, i))), S(a, 0, m) == S(b, 0, m))
        L.induction(k, 0, stmt, patterns=[lambda m: z3.MultiPattern(S(a, 0, m), S(b, 0, m))])
    return S
