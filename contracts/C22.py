"""C22 — set expressions follow set algebra over each Einsum's tensors.

Real code: accelforge/util/_setexpressions.py
  InvertibleSet.__and__ / __or__ / __sub__ / __xor__ / __invert__ / to_my_space / _make_set
  eval_set_expression_dict (SLICES: the evaluation loop with the running `Other`, and the
  pairwise-overlap check)

An InvertibleSet is an object with fields instance / full_space (sets of abstract elements),
space_type and element_to_child_space.  Representation invariant RI_U(x): x.full_space == U
and x.instance is a subset of U.  Python's `eval` applies exactly these dunder methods for
& | - ^ ~ with Python's (= the statement's) precedence (assumption A-DISPATCH), and every
symbol-table entry is an InvertibleSet, so every value of a set expression is obtained from the
named sets by the five operations proved here (closure lemma below).
"""
import z3
from vf.dsl import *
import vf.values as VV

P = Property("C22", "Set expressions follow set algebra over each Einsum's tensors")
S = "accelforge/util/_setexpressions.py"
P.oracle = "C22"
P.assume_note("A-DISPATCH: Python's eval applies __and__/__or__/__sub__/__xor__/__invert__ for & | - ^ ~ with Python precedence; frozenset operators are set algebra")
P.assume_note("pydantic construction of InvertibleSet stores the given keyword arguments unchanged (frozenset(x) == x as a set)")

SETT = SET(ELEM)
P.field("instance", SETT)
P.field("full_space", SETT)
P.field("space_type", ELEM)
P.field("element_to_child_space", VAL)
P.record("InvertibleSet", ["instance", "full_space", "space_type", "element_to_child_space"])

x = Const("sx", Elem)


def inst(c, o, heap=None):
    return c.ex.read_field(o, "instance", heap=heap)


def full(c, o, heap=None):
    return c.ex.read_field(o, "full_space", heap=heap)


def subset(a, b):
    return ForAll([x], Implies(Select(a.arr, x), Select(b.arr, x)))


def seteq(a, fn):
    """set a == {x | fn(x)}"""
    return ForAll([x], Select(a.arr, x) == fn(x))


def is_invset(o):
    return P.class_tag(o.ref) == P.class_id("InvertibleSet")


# ---- _make_set --------------------------------------------------------------------------------
@P.fn(S, "InvertibleSet._make_set", label="of_invertible_set")
def c_make_set_obj(c):
    o = c.arg("x", OBJ())
    c.applies(isinstance(o, VV.ObjV))
    c.pre("is_invertible_set", is_invset(o))
    r = c.result(SETT)
    c.post("is_the_instance", lambda r: seteq(r, lambda e: Select(inst(c, o).arr, e)))


@P.fn(S, "InvertibleSet._make_set", label="of_plain_set")
def c_make_set_plain(c):
    s = c.arg("x", SETT)
    c.applies(isinstance(s, VV.SetV))
    c.result(SETT)
    c.post("is_itself", lambda r: seteq(r, lambda e: Select(s.arr, e)))


# ---- to_my_space --------------------------------------------------------------------------------
def to_my_space_common(c, self_, content):
    c.modifies("instance", "full_space", "space_type", "element_to_child_space")
    c.result(OBJ("InvertibleSet"))
    old = c._old_heap if c.mode == "call" else c.ex.heap0_view()
    # (in call mode alloc0 is the CALLER's entry allocation: an object created by the callee is not in it)
    c.post("new_object", lambda r: And(Not(P.alloc0(r.ref)), r.ref != NULL, is_invset(r)))
    c.post("instance_is_the_given_set", lambda r: seteq(inst(c, r), content))
    c.post("same_universe", lambda r: seteq(full(c, r), lambda e: Select(full(c, self_, old).arr, e)))
    c.post("same_space_type", lambda r: c.ex.read_field(r, "space_type") == c.ex.read_field(self_, "space_type", heap=old))
    # frame: existing objects are untouched
    o = Const("fo", Ref)
    for f in ("instance", "full_space", "space_type", "element_to_child_space"):
        def fr(r, f=f):
            cur, was = c.ex.heap_arrays(f), c.ex.heap_arrays(f, old)
            keep = And(*[Select(a, o) == Select(b, o) for a, b in zip(cur, was)])
            return ForAll([o], Implies(o != r.ref, keep)) if c.mode == "call" else ForAll([o], Implies(P.alloc0(o), keep))
        c.post(f"frame.{f}", fr)


@P.fn(S, "InvertibleSet.to_my_space", label="of_plain_set")
def c_to_my_space_plain(c):
    self_ = c.arg("self", OBJ("InvertibleSet"))
    other = c.arg("other", SETT)
    c.applies(isinstance(other, VV.SetV))
    to_my_space_common(c, self_, lambda e: Select(other.arr, e))


@P.fn(S, "InvertibleSet.to_my_space", label="of_invertible_set")
def c_to_my_space_obj(c):
    self_ = c.arg("self", OBJ("InvertibleSet"))
    other = c.arg("other", OBJ())
    c.applies(isinstance(other, VV.ObjV))
    c.pre("is_invertible_set", is_invset(other))
    old = c._old_heap if c.mode == "call" else None
    to_my_space_common(c, self_, lambda e: Select(inst(c, other, old if c.mode == "call" else c.ex.heap0_view()).arr, e))


# ---- the five operators -----------------------------------------------------------------------------
OPS = {
    "__and__": lambda a, b: And(a, b),
    "__or__": lambda a, b: Or(a, b),
    "__sub__": lambda a, b: And(a, Not(b)),
    "__xor__": lambda a, b: Xor(a, b),
}


def binary(opname, other_kind):
    def contract(c):
        self_ = c.arg("self", OBJ("InvertibleSet"))
        if other_kind == "obj":
            other = c.arg("other", OBJ())
            c.applies(isinstance(other, VV.ObjV))
            c.pre("other_is_invertible_set", is_invset(other))
        else:
            other = c.arg("other", SETT)
            c.applies(isinstance(other, VV.SetV))
        c.modifies("instance", "full_space", "space_type", "element_to_child_space")
        old = c._old_heap if c.mode == "call" else c.ex.heap0_view()
        U = full(c, self_, old)
        a = inst(c, self_, old)
        b = inst(c, other, old) if other_kind == "obj" else other
        c.pre("self_is_invertible_set", is_invset(self_))
        c.pre("RI.self", subset(a, U))
        c.pre("RI.other_in_same_universe", subset(b, U))
        c.result(OBJ("InvertibleSet"))
        c.post("set_algebra", lambda r: seteq(inst(c, r), lambda e: OPS[opname](Select(a.arr, e), Select(b.arr, e))))
        c.post("RI.result_universe", lambda r: seteq(full(c, r), lambda e: Select(U.arr, e)))
        c.post("RI.result_within_universe", lambda r: subset(inst(c, r), full(c, r)))
        c.post("result_is_a_new_invertible_set", lambda r: And(is_invset(r), r.ref != NULL, Not(P.alloc0(r.ref))))
        o = Const("fo", Ref)
        for f in ("instance", "full_space"):
            def fr(r, f=f):
                cur, was = c.ex.heap_arrays(f), c.ex.heap_arrays(f, old)
                keep = And(*[Select(p, o) == Select(q, o) for p, q in zip(cur, was)])
                return ForAll([o], Implies(o != r.ref, keep)) if c.mode == "call" else ForAll([o], Implies(P.alloc0(o), keep))
            c.post(f"frame.{f}", fr)
    return contract


for _op in OPS:
    P.fn(S, f"InvertibleSet.{_op}", label="with_invertible_set")(binary(_op, "obj"))
    P.fn(S, f"InvertibleSet.{_op}", label="with_plain_set")(binary(_op, "set"))


@P.fn(S, "InvertibleSet.__invert__")
def c_invert(c):
    self_ = c.arg("self", OBJ("InvertibleSet"))
    c.modifies("instance", "full_space", "space_type", "element_to_child_space")
    old = c._old_heap if c.mode == "call" else c.ex.heap0_view()
    U, a = full(c, self_, old), inst(c, self_, old)
    c.pre("self_is_invertible_set", is_invset(self_))
    c.pre("RI.self", subset(a, U))
    c.result(OBJ("InvertibleSet"))
    c.post("complement_within_the_universe", lambda r: seteq(inst(c, r), lambda e: And(Select(U.arr, e), Not(Select(a.arr, e)))))
    c.post("RI.result_universe", lambda r: seteq(full(c, r), lambda e: Select(U.arr, e)))
    c.post("RI.result_within_universe", lambda r: subset(inst(c, r), full(c, r)))
    c.post("result_is_invertible_set", lambda r: And(is_invset(r), r.ref != NULL))


# =====================================================================================================
# eval_set_expression_dict: the "Other" key and the rejection of overlapping keys
# =====================================================================================================
OTHER, ALL = P.elem_of_str("Other"), P.elem_of_str("All")
ITEM = TUP(ELEM, VAL)
EVAL = TUP(ELEM, SETT, VAL)
MEANING = Function("set_expression_meaning", Elem, Ref)  # opaque result of evaluating a key that is not a plain name


@P.external("eval_set_expression", "evaluation of one key: an InvertibleSet over the table's universe; a key that is exactly a symbol of the table yields that symbol's entry (first branch of the real function)")
def c_eval_set_expression(c):
    k = c.arg("expression", ELEM)
    table = c.arg("symbol_table", MAP(ELEM, OBJ("InvertibleSet")))
    c.arg("expected_space", CONST(None))
    c.arg("location", CONST(None))
    r = c.result(OBJ("InvertibleSet"))
    ex = c.ex
    U = full(c, ex.map_get(table, ALL))
    c.post("is_invertible_set", lambda r: And(is_invset(r), r.ref != NULL))
    c.post("within_the_universe", lambda r: And(subset(inst(c, r), U), seteq(full(c, r), lambda e: Select(U.arr, e))))
    c.post("a_plain_symbol_is_its_table_entry", lambda r: Implies(Select(table.dom, k), r.ref == ex.map_get(table, k).ref))


@P.slice(S, "eval_set_expression_dict", "evaluate_keys", "def _eval(i):", "for i in eval_order:")
def c_eval_keys(c):
    items = c.var("items", SEQ(ITEM))
    others = c.var("others", SEQ(INT))
    table0 = c.var("symbol_table", MAP(ELEM, OBJ("InvertibleSet")))
    c.var("expected_space", CONST(None))
    c.var("location", CONST(None))
    evaluated0 = c.var("evaluated", SEQ(EVAL))
    ex = c.ex
    c.modifies("instance", "full_space", "space_type", "element_to_child_space")
    heap0 = ex.heap0_view()
    i, t, p = Ints("ki kt kp")
    e = Const("ke", Elem)
    key = lambda seq, j: arrs_of(seq)[0][j]
    # --- what the code before the slice established -------------------------------------------------
    c.pre("nothing_evaluated_yet", evaluated0.n == 0)
    c.pre("at_most_one_other_key", And(others.n >= 0, others.n <= 1, ForAll([p], Implies(And(p >= 0, p < others.n), And(at(others, p) >= 0, at(others, p) < items.n)))))
    all0, other0 = ex.map_get(table0, ALL), ex.map_get(table0, OTHER)
    U = inst(c, all0, heap0)
    c.pre("table_has_All_and_Other", And(Select(table0.dom, ALL), Select(table0.dom, OTHER)))
    c.pre("Other_starts_as_All", other0.ref == all0.ref)
    c.pre("All_is_the_universe", And(is_invset(all0), all0.ref != NULL, P.alloc0(all0.ref), seteq(full(c, all0, heap0), lambda x_: Select(U.arr, x_))))
    c.pre("table_entries_are_allocated_sets", ForAll([e], Implies(Select(table0.dom, e), And(P.alloc0(ex.map_get(table0, e).ref), ex.map_get(table0, e).ref != NULL))))

    def insts(ev, j):  # instance stored in evaluated[j]
        return Select(arrs_of(ev)[1], j)

    def union_upto(ev, n, x_):
        return Exists([t], And(t >= 0, t < n, Select(insts(ev, t), x_)))

    def other_is_rest(table, ev, n):
        """table["Other"] == All minus everything evaluated so far, stated as three E-matching
        friendly facts: (R1) evaluated instances are disjoint from Other, (R2) whatever of the
        universe is not in Other is covered by an evaluated instance, (R3) Other is within U."""
        oth = ex.map_get(table, OTHER)
        O = inst(c, oth)
        A1 = arrs_of(ev)[1]
        R1 = ForAll([t, e], Implies(And(t >= 0, t < n, Select(Select(A1, t), e)), Not(Select(O.arr, e))), patterns=[Select(Select(A1, t), e)])
        R2 = ForAll([e], Implies(And(Select(U.arr, e), Not(Select(O.arr, e))), union_upto(ev, n, e)), patterns=[Select(O.arr, e)])
        R3 = ForAll([e], Implies(Select(O.arr, e), Select(U.arr, e)), patterns=[Select(O.arr, e)])
        return [("table", And(Select(table.dom, OTHER), Select(table.dom, ALL), ex.map_get(table, ALL).ref == all0.ref, is_invset(oth), oth.ref != NULL)),
                ("universe", seteq(full(c, oth), lambda x_: Select(U.arr, x_))), ("R1.evaluated_disjoint_from_Other", R1), ("R2.rest_is_covered", R2), ("R3.Other_within_universe", R3)]

    # --- postconditions --------------------------------------------------------------------------------
    for k_ in range(5):
        nm_ = ["table", "universe", "R1.evaluated_disjoint_from_Other", "R2.rest_is_covered", "R3.Other_within_universe"][k_]
        c.post(f"Other_is_what_no_evaluated_key_covers.{nm_}", lambda res, k_=k_: other_is_rest(res["symbol_table"], res["evaluated"], res["evaluated"].n)[k_][1])
    c.post("every_instance_within_the_universe", lambda res: ForAll([t, e], Implies(And(t >= 0, t < res["evaluated"].n, Select(insts(res["evaluated"], t), e)), Select(U.arr, e))))
    # the key `Other`, evaluated last, is exactly the tensors no other key covers: with it, the keys cover All
    c.post("a_key_Other_makes_the_keys_cover_All", lambda res: Implies(And(others.n == 1, key(items, at(others, 0)) == OTHER),
           ForAll([e], Implies(Select(U.arr, e), union_upto(res["evaluated"], res["evaluated"].n, e)))))
    c.post("a_key_Other_is_disjoint_from_every_other_key", lambda res: Implies(And(others.n == 1, key(items, at(others, 0)) == OTHER),
           ForAll([t, e], Implies(And(t >= 0, t < res["evaluated"].n - 1), Not(And(Select(insts(res["evaluated"], t), e), Select(insts(res["evaluated"], res["evaluated"].n - 1), e)))))))

    def inv(L):
        ev, table, order = L.v("evaluated"), L.v("symbol_table"), L.seq
        o = Const("fo", Ref)
        out = [("evaluated_so_far", ev.n == L.k),
               *[("Other_is_the_rest." + n_, f_) for n_, f_ in other_is_rest(table, ev, L.k)],
               ("instances_within_universe", ForAll([t, e], Implies(And(t >= 0, t < L.k, Select(insts(ev, t), e)), Select(U.arr, e)))),
               ("table_keeps_its_keys", ForAll([e], Implies(Select(table0.dom, e), Select(table.dom, e)))),
               ("entries_other_than_Other_unchanged", ForAll([e], Implies(And(Select(table0.dom, e), e != OTHER), ex.map_get(table, e).ref == ex.map_get(table0, e).ref)))]
        for f in ("instance", "full_space"):
            cur, was = ex.heap_arrays(f), ex.heap_arrays(f, heap0)
            out.append((f"frame.{f}", ForAll([o], Implies(P.alloc0(o), And(*[Select(a, o) == Select(b, o) for a, b in zip(cur, was)])))))
        # once the key `Other` (evaluated last) is done, the keys cover All and `Other` overlaps none of them
        done = And(others.n == 1, key(items, at(others, 0)) == OTHER, L.k == order.n, order.n >= 1)
        out.append(("after_the_Other_key_everything_is_covered", Implies(done, ForAll([e], Implies(Select(U.arr, e), union_upto(ev, L.k, e))))))
        out.append(("the_Other_key_overlaps_no_other_key", Implies(done, ForAll([t, e], Implies(And(t >= 0, t < L.k - 1), Not(And(Select(insts(ev, t), e), Select(insts(ev, L.k - 1), e))))))))
        return out

    c.invariant("L0", inv)


@P.slice(S, "eval_set_expression_dict", "reject_overlaps", "if disjoint:", "if disjoint:")
def c_overlaps(c):
    evaluated = c.var("evaluated", SEQ(EVAL))
    c.var("disjoint", CONST(True))
    c.var("location", CONST(None))
    i, j = Ints("oi oj")
    e = Const("oe", Elem)
    insts = lambda k_: Select(arrs_of(evaluated)[1], k_)
    overlap = lambda a, b: Exists([e], And(Select(insts(a), e), Select(insts(b), e)))
    c.raises("EvaluationError", when=lambda: Exists([i, j], And(i >= 0, i < j, j < evaluated.n, overlap(i, j))), name="only_when_two_keys_overlap")
    c.post("normal_completion_means_pairwise_disjoint", lambda res: ForAll([i, j], Implies(And(i >= 0, i < j, j < evaluated.n), Not(overlap(i, j)))))

    def inv(L):
        fi, fj, tt, q = L.seq.comb
        t = Int("ot")
        return [("visited_pairs_are_disjoint", ForAll([t], Implies(And(t >= 0, t < L.k), Not(overlap(fi(t), fj(t)))), patterns=[fi(t)]))]

    c.invariant("L0", inv)
