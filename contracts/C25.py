"""C25 — architecture flattening yields exactly the root-to-compute path.

Real code: accelforge/frontend/arch/structure.py  Hierarchical._flatten  (whole function, recursive; both
return modes).  Spec._get_flattened_architecture (duplicate-name check, one _flatten call per compute) and
ArchNode.find are not under contract: find is an assumed contract, the rest is covered by the bounded
cross-check (oracles/C25.py).

The architecture is a tree on the heap (`nodes` lists of Hierarchical / Fork nodes, leaves Memory / Toll /
Container / Compute).  Leaves are numbered in depth-first order; LO(n), HI(n) is the half-open interval of
leaf numbers below node n.  Which leaves belong to the flattened architecture of a subtree b for the
compute named c is the predicate INC(b, t, c), defined by structural recursion from the statement:
children of a Hierarchical are stacked top-down; everything after the compute is excluded; other computes
are excluded; a Fork that does not contain the compute is excluded as a whole.
"""
import z3
from vf.dsl import *
import vf.values as VV

P = Property("C25", "Architecture flattening yields exactly the root-to-compute path")
F = "accelforge/frontend/arch/structure.py"
P.oracle = "C25"
P.drop_calls += ["e.add_field"]
P.field("nodes", SEQ(OBJ("?")))
P.field("name", ELEM)
P.classes |= {"Hierarchical", "Fork", "Array", "Leaf", "Compute", "Branch", "Memory", "Toll", "Container", "Spatialable"}
P.class_parents.update({"Fork": ["Hierarchical"], "Hierarchical": ["Branch"], "Array": ["Branch", "Spatialable"], "Compute": ["Leaf", "Spatialable"],
                        "Memory": ["Leaf", "Spatialable"], "Toll": ["Leaf", "Spatialable"], "Container": ["Leaf", "Spatialable"]})
P.assume_note("the architecture is a finite tree: the ghost functions LO / HI (depth-first leaf intervals), LEAFAT, CIDX, HEIGHT exist with the stated well-formedness (precondition); no Array nodes (outside the property's quantifier); leaf names are unique (Spec._get_flattened_architecture raises otherwise) and a leaf named like the requested compute is a Compute")
P.assume_note("get_fanout() is an assumed pure number; FlattenedArch(list) keeps the list; Hierarchical and Fork nodes have no `name` attribute (getattr default None)")

LO = Function("leaf_lo", Ref, IntSort())
HI = Function("leaf_hi", Ref, IntSort())
LEAFAT = Function("leaf_at", IntSort(), Ref)
CIDX = Function("child_index_of_leaf", Ref, IntSort(), IntSort())
HEIGHT = Function("height", Ref, IntSort())
RC = Function("rank_of_compute_named", Elem, IntSort())   # -1 if there is none
RL = Function("rank_of_leaf_named", Elem, IntSort())      # -1 if there is none
INC = Function("in_flattened", Ref, IntSort(), Elem, BoolSort())
FANOUT = Function("get_fanout", Ref, RealSort())


def tagset(names):
    out = set()
    for n in names:
        out |= P.subclasses(n)
    return sorted(out)


def is_(r, *names):
    return Or(*[P.class_tag(r) == P.class_id(s) for s in tagset(names)])


is_hier = lambda r: is_(r, "Hierarchical")
is_fork = lambda r: is_(r, "Fork")
is_leaf = lambda r: is_(r, "Leaf")
is_compute = lambda r: is_(r, "Compute")


def has_c(n, c):
    return And(RC(c) >= 0, LO(n) <= RC(c), RC(c) < HI(n))


NLEAVES = Const("number_of_leaves", IntSort())


def in_tree(t):
    return And(t >= 0, t < NLEAVES)


def distinct_names(NAME):
    """the leaves of the architecture (ranks 0 .. NLEAVES-1) have pairwise different names"""
    t, u = Ints("dt du")
    return ForAll([t, u], Implies(And(in_tree(t), in_tree(u), Select(NAME, LEAFAT(t)) == Select(NAME, LEAFAT(u))), t == u))


def tree_axioms(ex):
    """Well-formedness of the tree and the definitions of RC and INC, over the heap at entry."""
    NA, NN = ex.heap_arrays("nodes", ex.heap0_view())
    NAME = ex.heap_arrays("name", ex.heap0_view())[0]
    b, x = Consts("wb wx", Ref)
    i, t = Ints("wi wt")
    c = Const("wc", Elem)
    ch = lambda b_, i_: Select(Select(NA, b_), i_)
    m = lambda b_: Select(NN, b_)
    kid = ch(b, i)
    A = []
    A.append(("children", ForAll([b, i], Implies(And(is_hier(b), i >= 0, i < m(b)), And(
        kid != NULL, Or(is_hier(kid), is_leaf(kid)), Not(And(is_hier(kid), is_leaf(kid))), LO(b) <= LO(kid), HI(kid) <= HI(b), LO(kid) <= HI(kid), HEIGHT(kid) < HEIGHT(b), HEIGHT(kid) >= 0,
        Implies(i + 1 < m(b), HI(kid) == LO(ch(b, i + 1))), Implies(i == 0, LO(kid) == LO(b)), Implies(i == m(b) - 1, HI(kid) == HI(b)))), patterns=[ch(b, i)])))
    j = Int("wj")
    A.append(("children_ordered", ForAll([b, i, j], Implies(And(is_hier(b), i >= 0, i < j, j < m(b)), HI(ch(b, i)) <= LO(ch(b, j))), patterns=[z3.MultiPattern(ch(b, i), ch(b, j))])))
    A.append(("branch", ForAll([b], Implies(is_hier(b), And(m(b) >= 0, LO(b) <= HI(b), Implies(m(b) == 0, HI(b) == LO(b)), HEIGHT(b) >= 0)), patterns=[m(b)])))
    A.append(("leaf", ForAll([x], Implies(is_leaf(x), And(HI(x) == LO(x) + 1, LEAFAT(LO(x)) == x, LO(x) >= 0, LO(x) < NLEAVES)), patterns=[LO(x)])))
    A.append(("ranks_are_leaves", ForAll([i], Implies(in_tree(i), And(is_leaf(LEAFAT(i)), LO(LEAFAT(i)) == i, LEAFAT(i) != NULL)), patterns=[LEAFAT(i)])))
    A.append(("ranks_nonnegative", ForAll([x], Implies(is_hier(x), LO(x) >= 0), patterns=[LO(x)])))
    A.append(("child_of_leaf_rank", ForAll([b, t], Implies(And(is_hier(b), LO(b) <= t, t < HI(b)), And(CIDX(b, t) >= 0, CIDX(b, t) < m(b), LO(ch(b, CIDX(b, t))) <= t, t < HI(ch(b, CIDX(b, t))))), patterns=[CIDX(b, t)])))
    # leaf names are unique: RL(c) is the rank of the leaf named c, or -1; RC(c) is that rank if the leaf is a Compute, else -1
    A.append(("leaf_rank", ForAll([c], Or(RL(c) == -1, And(RL(c) >= 0, is_leaf(LEAFAT(RL(c))), LO(LEAFAT(RL(c))) == RL(c), Select(NAME, LEAFAT(RL(c))) == c)), patterns=[RL(c)])))
    # (RL is the rank of the leaf with a given name WHEN the leaf names are pairwise distinct -- a definition,
    #  not an assumption of distinctness: that is the explicit precondition `leaf_names_are_unique` below)
    A.append(("names_unique", Implies(distinct_names(NAME), ForAll([x], Implies(And(is_leaf(x), LEAFAT(LO(x)) == x, in_tree(LO(x))), RL(Select(NAME, x)) == LO(x)), patterns=[LO(x)]))))
    A.append(("compute_rank", ForAll([c], RC(c) == If(And(RL(c) >= 0, is_compute(LEAFAT(RL(c)))), RL(c), IntVal(-1)), patterns=[RC(c)])))
    # the statement: which leaf ranks belong to the flattened architecture of subtree b for compute c
    kid = ch(b, CIDX(b, t))
    body = If(is_leaf(kid),
              And(Or(Not(has_c(b, c)), t <= RC(c)), Or(Not(is_compute(kid)), t == RC(c))),
              And(Or(Not(has_c(b, c)), LO(kid) <= RC(c)), Not(And(is_fork(kid), Not(has_c(kid, c)))), INC(kid, t, c)))
    A.append(("def_in_flattened", ForAll([b, t, c], Implies(And(is_hier(b), LO(b) <= t, t < HI(b)), INC(b, t, c) == body), patterns=[INC(b, t, c)])))
    return A


def has_leaf(n, nm):
    """a leaf named nm lies below (or is) node n"""
    return And(RL(nm) >= 0, LO(n) <= RL(nm), RL(nm) < HI(n))


P.field_owners["name"] = ["Leaf", "Array"]     # Hierarchical / Fork nodes have no `name`
SENTINEL = VV.StrV("<_FIND_SENTINEL>")
P.globals["_FIND_SENTINEL"] = SENTINEL


def find_contract(label, with_default):
    @P.fn(F, "ArchNode.find", label=label)
    def c_find(c):
        self_ = c.arg("self", OBJ("?"))
        nm = c.arg("name", ELEM)
        d = c.arg("default", CONST(None) if with_default else CONST(SENTINEL), default=SENTINEL)
        c.applies((d is NONE) == with_default)
        ex = c.ex
        s = self_.ref
        if c.mode == "verify":
            for nm_, ax in tree_axioms(ex):
                c.pre("tree." + nm_, ax)
        c.pre("self_is_a_node_of_the_tree", And(s != NULL, Or(is_hier(s), is_leaf(s)), Not(And(is_hier(s), is_leaf(s)))))
        c.pre("leaf_names_are_unique", distinct_names(ex.heap_arrays("name")[0]))
        c.decreases(HEIGHT(s))
        NAME = ex.heap_arrays("name")[0]
        found = lambda r: And(r != NULL, is_leaf(r), Select(NAME, r) == nm, LO(s) <= LO(r), LO(r) < HI(s))
        if with_default:
            c.result(OPT(OBJ("?")))
            def opt(r):
                if r is NONE:
                    return BoolVal(True), NULL
                if isinstance(r, VV.OptV):
                    return r.isnone, r.val.ref
                return BoolVal(False), r.ref

            c.post("none_iff_no_leaf_below_has_the_name", lambda r: opt(r)[0] == Not(has_leaf(s, nm)))
            c.post("else_the_leaf_with_that_name", lambda r: Implies(Not(opt(r)[0]), found(opt(r)[1])))
        else:
            c.result(OBJ("?"))
            c.post("the_leaf_with_that_name", lambda r: found(r.ref))
            c.raises("ValueError", when=lambda: Not(has_leaf(s, nm)), name="only_if_no_leaf_below_has_the_name", at_call=True)
        if c.mode != "verify":
            return
        NA, NN = ex.heap_arrays("nodes", ex.heap0_view())
        kids_n = Select(NN, s)
        kid = lambda k: Select(Select(NA, s), k)

        def inv(L):
            bound = If(L.k < kids_n, LO(kid(L.k)), HI(s))
            return [("no_leaf_with_the_name_among_the_children_seen", Not(And(RL(nm) >= 0, LO(s) <= RL(nm), RL(nm) < bound)))]

        c.invariant("L0", inv)

    return c_find


find_contract("raising", False)
find_contract("with_default_none", True)


@P.external("get_fanout", "Spatialable.get_fanout(): a pure number")
def c_get_fanout(c):
    n = c.arg("self", OBJ("?"))
    c.result_is(FANOUT(n.ref))


@P.external("FlattenedArch", "FlattenedArch(list): a list with the same items")
def c_flattened(c):
    x = c.arg("iterable", SEQ(OBJ("?")))
    c.result_is(x)


def flatten_contract(label, return_fanout):
    @P.fn(F, "Hierarchical._flatten", label=label)
    def c_flatten(c):
        self_ = c.arg("self", OBJ("Hierarchical"))
        cn = c.arg("compute_node", ELEM)
        fan = c.arg("fanout", REAL, default=1)
        rf = c.arg("return_fanout", CONST(return_fanout), default=False)
        c.applies(isinstance(rf, bool) and rf == return_fanout or (VV.is_bool(rf) and z3.is_true(rf) == return_fanout and (z3.is_true(rf) or z3.is_false(rf))))
        ex = c.ex
        c.local("nodes", SEQ(OBJ("?")))
        if c.mode == "verify":
            for nm, ax in tree_axioms(ex):
                c.pre("tree." + nm, ax)
        s = self_.ref
        c.pre("self_is_a_hierarchical_of_the_tree", And(is_hier(s), s != NULL))
        c.pre("leaf_names_are_unique", distinct_names(ex.heap_arrays("name")[0]))
        c.pre("a_leaf_with_the_requested_name_is_a_compute", Implies(RL(cn) >= 0, is_compute(LEAFAT(RL(cn)))))
        c.decreases(HEIGHT(s))
        res = c.result(TUP(SEQ(OBJ("?")), REAL) if return_fanout else SEQ(OBJ("?")))
        seq_of = (lambda r: r.items[0]) if return_fanout else (lambda r: r)
        p, q, t = Ints("fp fq ft")

        def members(R, upto):
            R = ex.materialize(R)
            x = at(R, p)
            return forall([p], Implies(And(p >= 0, p < R.n), And(x != NULL, is_leaf(x), LO(s) <= LO(x), LO(x) < upto, INC(s, LO(x), cn))), patterns=[at(R, p)])

        def ordered(R):
            R = ex.materialize(R)
            return forall([p, q], Implies(And(p >= 0, p < q, q < R.n), LO(at(R, p)) < LO(at(R, q))), patterns=[z3.MultiPattern(at(R, p), at(R, q))])

        def complete(R, upto):
            R = ex.materialize(R)
            return forall([t], Implies(And(LO(s) <= t, t < upto, INC(s, t, cn)), mem(R, LEAFAT(t))), patterns=[INC(s, t, cn)])

        c.post("only_leaves_of_the_path", lambda r: members(seq_of(r), HI(s)))
        c.post("top_down_order", lambda r: ordered(seq_of(r)))
        c.post("every_leaf_of_the_path", lambda r: complete(seq_of(r), HI(s)))
        c.post("ends_with_the_compute_if_it_is_below", lambda r: Implies(has_c(s, cn), mem(seq_of(r), LEAFAT(RC(cn)))))
        if c.mode != "verify":
            return
        NA, NN = ex.heap_arrays("nodes", ex.heap0_view())
        kids_n = Select(NN, s)
        kid = lambda k: Select(Select(NA, s), k)

        def inv(L):
            R = L.v("nodes")
            k = L.k
            bound = If(k < kids_n, LO(kid(k)), HI(s))
            return [
                ("only_leaves_of_the_path_so_far", members(R, bound)),
                ("top_down_order", ordered(R)),
                ("every_leaf_of_the_path_so_far", complete(R, bound)),
                ("compute_not_passed", Not(And(RC(cn) >= 0, LO(s) <= RC(cn), RC(cn) < bound))),
            ]

        c.invariant("L0", inv)

    return c_flatten


flatten_contract("with_fanout", True)
flatten_contract("nodes_only", False)


# ==== Branch.get_nodes_of_type and Spec._get_flattened_architecture =========================================
SP = "accelforge/frontend/spec.py"
P.field("arch", OBJ("Hierarchical"))
P.field("component_model", VAL)
P.field("_evaluated", BOOL)
P.field_owners["component_model"] = ["Leaf"]
P.classes |= {"Spec"}
P.assume_note("Spec._spec_eval_expressions (re-evaluation for an Einsum) is outside the contract of _get_flattened_architecture: it is verified for einsum_name=None; every leaf has a `component_model` attribute slot (hasattr is decided per class: leaves yes)")


def nodes_of_type_contract(label, clsname, pred):
    @P.fn(F, "Branch.get_nodes_of_type", label=label)
    def c_nodes_of_type(c):
        self_ = c.arg("self", OBJ("Hierarchical"))
        t = c.arg("types", CONST(VV.ClassV(clsname)))
        c.applies(isinstance(t, VV.ClassV) and t.name == clsname)
        ex = c.ex
        s = self_.ref
        if c.mode == "verify":
            for nm_, ax in tree_axioms(ex):
                c.pre("tree." + nm_, ax)
        c.pre("self_is_a_hierarchical_of_the_tree", And(is_hier(s), s != NULL))
        c.decreases(HEIGHT(s))
        Y = c.yields(SEQ(OBJ("?")))
        p, q, t_ = Ints("np nq nt")

        def spec(R, upto):
            R = ex.materialize(R)
            return [
                ("only_such_leaves_below_in_depth_first_order", And(forall([p], Implies(And(p >= 0, p < R.n), And(at(R, p) != NULL, is_leaf(at(R, p)), pred(at(R, p)), LO(s) <= LO(at(R, p)), LO(at(R, p)) < upto)), patterns=[at(R, p)]),
                                                                     forall([p, q], Implies(And(p >= 0, p < q, q < R.n), LO(at(R, p)) < LO(at(R, q))), patterns=[z3.MultiPattern(at(R, p), at(R, q))]))),
                ("every_such_leaf_below", forall([t_], Implies(And(LO(s) <= t_, t_ < upto, t_ >= 0, is_leaf(LEAFAT(t_)), LO(LEAFAT(t_)) == t_, pred(LEAFAT(t_)), INTREE(t_)), mem(R, LEAFAT(t_))), patterns=[LEAFAT(t_)])),
            ]

        c.post("only_such_leaves_below_in_depth_first_order", lambda r: spec(r, HI(s))[0][1])
        c.post("every_such_leaf_below", lambda r: spec(r, HI(s))[1][1])
        if c.mode != "verify":
            return
        NA, NN = ex.heap_arrays("nodes", ex.heap0_view())
        kids_n = Select(NN, s)
        kid = lambda k: Select(Select(NA, s), k)
        c.invariant("L0", lambda L: spec(L.v("__yielded__"), If(L.k < kids_n, LO(kid(L.k)), HI(s))))

    return c_nodes_of_type


INTREE = in_tree
nodes_of_type_contract("leaves", "Leaf", lambda r: BoolVal(True))
nodes_of_type_contract("computes", "Compute", lambda r: is_compute(r))


P.fields["component_model"] = OPT(VAL)
PATHS = SEQ(SEQ(OBJ("?")))
P.assert_mode = "raise"


def flattened_contract(label, by_name):
    @P.fn(SP, "Spec._get_flattened_architecture", label=label)
    def c_get_flattened(c):
        self_ = c.arg("self", OBJ("Spec"))
        cn = c.arg("compute_node", ELEM if by_name else CONST(None), default=None)
        c.arg("einsum_name", CONST(None), default=None)
        c.applies((cn is not NONE) == by_name)
        ex = c.ex
        c.local("found", PATHS)
        c.local("found_names", SET(ELEM))
        c.modifies("component_model")
        if c.mode == "verify":
            for nm_, ax in tree_axioms(ex):
                c.pre("tree." + nm_, ax)
        arch = ex.read_field(self_, "arch", heap=ex.heap0_view() if c.mode == "verify" else None)
        a = arch.ref
        NAME = ex.heap_arrays("name")[0]
        c.pre("spec_is_evaluated", ex.read_field(self_, "_evaluated"))
        c.pre("arch_is_the_root_of_the_tree", And(a != NULL, is_hier(a), LO(a) == 0, HI(a) == NLEAVES))
        c.raises("EvaluationError", when=None)   # duplicate names (or a last path element that is not the requested compute)
        if by_name:
            # (for a name that no Compute has, the real code raises EvaluationError -- or IndexError when the
            #  path comes out empty; that case is outside this contract)
            c.pre("the_requested_compute_exists", And(RL(cn) >= 0, RL(cn) < NLEAVES, is_compute(LEAFAT(RL(cn)))))
        p, q, t = Ints("gp gq gt")
        if by_name:
            c.result(SEQ(OBJ("?")))
        else:
            c.result(PATHS)

        def path_ok(R, comp_name):
            """R is exactly the flattened path for the compute named comp_name (the contract of _flatten for the root)"""
            R = ex.materialize(R)
            return And(forall([p], Implies(And(p >= 0, p < R.n), And(at(R, p) != NULL, is_leaf(at(R, p)), INC(a, LO(at(R, p)), comp_name))), patterns=[at(R, p)]),
                       forall([p, q], Implies(And(p >= 0, p < q, q < R.n), LO(at(R, p)) < LO(at(R, q))), patterns=[z3.MultiPattern(at(R, p), at(R, q))]),
                       forall([t], Implies(And(in_tree(t), INC(a, t, comp_name)), mem(R, LEAFAT(t))), patterns=[INC(a, t, comp_name)]),
                       R.n > 0, Select(NAME, at(R, R.n - 1)) == comp_name)

        c.post("leaf_names_are_pairwise_distinct_on_normal_return", lambda r: distinct_names(NAME))
        if by_name:
            c.post("the_path_of_the_requested_compute_ending_with_it", lambda r: path_ok(r, cn))
        else:
            def all_paths(r):
                na_, nn_ = arrs_of(r)[0], arrs_of(r)[1]
                path = lambda k: SeqV(VV.ObjShape("?"), Select(na_, k), Select(nn_, k))
                k = Int("gk")
                x = Const("gx", Ref)
                return And(forall([k], Implies(And(k >= 0, k < r.n), Exists([x], And(is_leaf(x), is_compute(x), in_tree(LO(x)), LEAFAT(LO(x)) == x, path_ok(path(k), Select(NAME, x)))))),
                           forall([x], Implies(And(is_leaf(x), is_compute(x), in_tree(LO(x)), LEAFAT(LO(x)) == x), Exists([k], And(k >= 0, k < r.n, Select(NAME, at(path(k), Select(nn_, k) - 1)) == Select(NAME, x))))))
            c.post("one_path_per_compute_each_ending_with_its_compute", all_paths)
        if c.mode != "verify":
            return

        def inv_names(L):  # for leaf in all_leaves: duplicate check
            seq = ex.materialize(L.seq)
            fn = L.v("found_names")
            e = Const("ge", Elem)
            return [("names_seen_are_distinct", forall([p, q], Implies(And(p >= 0, p < q, q < L.k), Select(NAME, at(seq, p)) != Select(NAME, at(seq, q))), patterns=[z3.MultiPattern(at(seq, p), at(seq, q))])),
                    ("found_names_are_the_names_seen", forall([e], Select(fn.arr, e) == Exists([p], And(p >= 0, p < L.k, Select(NAME, at(seq, p)) == e)), patterns=[Select(fn.arr, e)]))]

        def inv_paths(L):  # for c in compute_nodes: found.append(self.arch._flatten(c)); check the last element
            found = L.v("found")
            na_, nn_ = arrs_of(ex.materialize(found))
            seq = ex.materialize(L.seq)
            k = Int("gk2")
            path = lambda k_: SeqV(VV.ObjShape("?"), Select(na_, k_), Select(nn_, k_))
            return [("names_distinct", distinct_names(NAME)),
                    ("one_checked_path_per_compute_so_far", And(found.n == L.k, forall([k], Implies(And(k >= 0, k < L.k), path_ok(path(k), at(seq, k))), patterns=[Select(nn_, k)])))]

        def inv_pickle(L):  # for f in found: for n in f: n.component_model = None   (touches no list and no name)
            return [("names_distinct", distinct_names(ex.heap_arrays("name")[0]))]

        c.invariant("L0", inv_names)
        c.invariant("L1", inv_paths)
        c.invariant("L2", inv_pickle)
        c.invariant("L3", inv_pickle)
    return c_get_flattened


flattened_contract("by_name", True)
flattened_contract("all_computes", False)
