"""C30 — network transfer costs match route enumeration.

Real code: accelforge/model/_looptree/reuse/symbolic/_network.py
  MeshTopologyModel.per_loop_transfer_cost, AllToAllTopologyModel.per_loop_transfer_cost,
  multicast_cost, unicast_cost, arithmetic_sum

Spec (from the statement): destinations sit at positions 0, s, 2s, ..., (n-1)s of a
line; the (non-distributed) source is at position 0; link j joins positions j and
j+1, for 0 <= j < (n-1)s.  Each destination k receives `v` actions of data.
  unicast  : destination k's value walks links 0..k*s-1  (its shortest line route)
             hops  = sum_{k=1}^{n-1} k*s*v          load(j) = v * #{k | 1<=k<n, k*s > j}
  multicast: the shared value crosses every link once
             hops  = (#links) * v = (n-1)*s*v       load(j) = v for every existing link
  switch   : every delivery to one of the n-1 others is one hop
             hops  = (n-1)*v; unicast: the source's uplink carries the n-1 distinct
             values (n-1)*v; multicast: each used link carries the value once (v), and no
             link is used when n = 1.
  max traffic = max over existing links of load, 0 when no link exists.
Arithmetic is over the reals (the real code evaluates the same Python text on sympy
objects or numbers: assumption "ring homomorphism").
"""
from vf.dsl import *

P = Property("C30", "Network transfer costs match route enumeration")
F = "accelforge/model/_looptree/reuse/symbolic/_network.py"
P.oracle = "C30"

P.assume_note("A-REAL: arithmetic on shape_repeats/last_fanout/volume is over the reals (sympy / float arithmetic treated as exact ring arithmetic)")
P.assume_note("assumed contract: src_component._get_physical_fanout_along(dim) is a pure function pf(src, dim); the property's 'non-distributed source' is pf <= 1")

P.record("PerLoopTransferCost", ["total_cost", "max_hops", "max_traffic"])
for f in ("total_cost", "max_hops", "max_traffic"):
    P.field(f, REAL)
P.classes |= {"Irrelevant", "Relevant", "PartiallyRelevant"}

# ---- spec functions -----------------------------------------------------------------
# hops_uni(n, s, v) = sum_{k=1}^{n-1} k*s*v, defined by recursion on n
hops_uni = Function("hops_uni", IntSort(), RealSort(), RealSort(), RealSort())
# cnt(n, s, j) = #{k | 1 <= k < n and k*s > j}
cnt = Function("cnt", IntSort(), IntSort(), IntSort(), IntSort())
PF = Function("physical_fanout", Ref, Elem, IntSort())


def defs():
    n, s, j = Int("n"), Int("s"), Int("j")
    sr, v = Real("sr"), Real("v")
    return [
        ForAll([sr, v], hops_uni(1, sr, v) == 0),
        ForAll([n, sr, v], Implies(n >= 2, hops_uni(n, sr, v) == hops_uni(n - 1, sr, v) + ToReal(n - 1) * sr * v), patterns=[hops_uni(n, sr, v)]),
        ForAll([s, j], cnt(1, s, j) == 0),
        ForAll([n, s, j], Implies(n >= 2, cnt(n, s, j) == cnt(n - 1, s, j) + If((n - 1) * s > j, 1, 0)), patterns=[cnt(n, s, j)]),
    ]


for i, d in enumerate(defs()):
    P.hint(f"def.{i}", d)


# ---- lemmas (induction on n; the step is a VC like any other) ---------------------
@P.lemma("hops_uni.closed_form")
def lemma_closed(L):
    n = Int("n")
    s, v = Real("s"), Real("v")
    stmt = lambda m: hops_uni(m, s, v) == 0.5 * ToReal(m) * ToReal(m - 1) * s * v
    return L.induction(n, 1, stmt)


@P.lemma("cnt.bounds")
def lemma_cnt(L):
    n, s, j = Int("n"), Int("s"), Int("j")
    stmt = lambda m: And(cnt(m, s, j) >= 0, cnt(m, s, j) <= m - 1, Implies(j == 0, cnt(m, s, j) == m - 1))
    return L.induction(n, 1, stmt, given=[s >= 1, j >= 0])


# ---- helpers ------------------------------------------------------------------------
@P.fn(F, "arithmetic_sum")
def c_arith(c):
    n = c.arg("n", REAL)
    c.result(REAL)
    c.post("closed_form", lambda r: r == n * (n + 1) / 2)


@P.fn(F, "multicast_cost")
def c_multi(c):
    n = c.arg("n_dsts", REAL)
    s = c.arg("stride", REAL)
    c.result(REAL)
    c.post("links", lambda r: r == (n - 1) * s)


@P.fn(F, "unicast_cost")
def c_uni(c):
    n = c.arg("n_dsts", REAL)
    s = c.arg("stride", REAL)
    c.result(REAL)
    c.post("sum_of_routes", lambda r: r == (n - 1) * n / 2 * s)


@P.external("_get_physical_fanout_along", "method of the flattened-arch component; pure lookup of the physical fan-out along a dimension")
def c_pf(c):
    src = c.arg("self", OBJ("Component"))
    dim = c.arg("dim_name", ELEM)
    r = c.result(INT)
    c.post("pure", lambda r: r == PF(src.ref, dim))


def is_cls(rel, name):
    return P.class_tag(rel.ref) == P.class_id(name)


def common(c, cls):
    c.arg("self", OBJ(cls))
    rel = c.arg("relevancy", OBJ())
    n = c.arg("shape_repeats", INT)
    s = c.arg("last_fanout", INT)
    v = c.arg("volume", REAL)
    src = c.arg("src_component", OBJ("Component"))
    dim = c.arg("dim_name", ELEM)
    c.pre("n_ge_1", n >= 1)
    c.pre("stride_ge_1", s >= 1)
    c.pre("volume_ge_0", v >= 0)
    c.pre("non_distributed_source", PF(src.ref, dim) <= 1)
    irr, relv, part = is_cls(rel, "Irrelevant"), is_cls(rel, "Relevant"), is_cls(rel, "PartiallyRelevant")
    c.raises("NotImplementedError", when=lambda: part)
    c.raises("RuntimeError", when=lambda: Not(Or(irr, relv, part)))
    c.result(OBJ("PerLoopTransferCost"))
    c.post("normal_return_only_for_unicast_or_multicast", lambda r: Or(irr, relv))
    # known finding F8 (see /verif/known_findings.json): fan-out 1, multicast
    c.known_class("F8", And(n == 1, irr))
    return rel, n, s, v, irr, relv


def link_specs(c, n, s, v, irr, relv, nlinks):
    """max_traffic must be the maximum per-link load: an upper bound of every link's
    load that is attained on some link, and 0 when there is no link."""
    j = Int("j")
    tr = lambda r: c.field(r, "max_traffic")
    c.post("unicast.max_traffic.upper_bound", lambda r: Implies(relv, ForAll([j], Implies(And(j >= 0, j < nlinks), ToReal(cnt(n, s, j)) * v <= tr(r)))))
    c.post("unicast.max_traffic.attained", lambda r: Implies(relv, If(nlinks > 0, tr(r) == ToReal(cnt(n, s, 0)) * v, tr(r) == 0)))
    c.post("multicast.max_traffic", lambda r: Implies(irr, tr(r) == If(nlinks > 0, v, 0)))


@P.fn(F, "MeshTopologyModel.per_loop_transfer_cost")
def c_mesh(c):
    rel, n, s, v, irr, relv = common(c, "MeshTopologyModel")
    nlinks = (n - 1) * s
    c.post("multicast.total_hops", lambda r: Implies(irr, c.field(r, "total_cost") == ToReal(nlinks) * v))
    c.post("unicast.total_hops", lambda r: Implies(relv, c.field(r, "total_cost") == hops_uni(n, ToReal(s), v)))
    link_specs(c, n, s, v, irr, relv, nlinks)


@P.fn(F, "AllToAllTopologyModel.per_loop_transfer_cost")
def c_switch(c):
    rel, n, s, v, irr, relv = common(c, "AllToAllTopologyModel")
    # every delivery to one of the n-1 other instances is one hop
    c.post("total_hops", lambda r: c.field(r, "total_cost") == ToReal(n - 1) * v)
    # links: source uplink + one downlink per other instance; they exist iff n >= 2.
    # unicast: the uplink carries all n-1 distinct values; multicast: every used link carries v once
    tr = lambda r: c.field(r, "max_traffic")
    c.post("unicast.max_traffic", lambda r: Implies(relv, tr(r) == ToReal(n - 1) * v))
    c.post("multicast.max_traffic", lambda r: Implies(irr, tr(r) == If(n >= 2, v, 0)))

