"""C31 — Toll components pass data through without storing it.

Real code:
  accelforge/model/_looptree/reuse/symbolic/_symbolic.py
      analyze_toll                 whole function
      analyze_storage              SLICE: the conversion of data movement into read / write actions
  accelforge/frontend/arch/components.py
      TensorHolder._get_values_per_action   whole function
  accelforge/model/run_model.py
      run_model                    SLICE: the outermost-holder check
What the movement counts themselves are (fills, reads to parent ... through sympy and the mapping
tree: the rest of analyze_storage / analyze_node) is NOT under contract; the bounded cross-check
(oracles/C31.py) compares them with an explicit walk of the loop nest.
"""
import z3
from vf.dsl import *
import vf.values as VV

P = Property("C31", "Toll components pass data through without storing it")
S = "accelforge/model/_looptree/reuse/symbolic/_symbolic.py"
C = "accelforge/frontend/arch/components.py"
R = "accelforge/model/run_model.py"
P.oracle = "C31"
P.assert_mode = "raise"
P.assume_note("real arithmetic for the sympy / float counts")
P.assume_note("analyze_storage as a WHOLE is an assumed contract at its call site in analyze_toll (with count_writes=False it leaves total_write_actions of the node's buffets at 0; its action-conversion statements are verified as a slice); the movement counts it computes are bounded-checked only")

UP, DOWN = P.elem_of_str("up"), P.elem_of_str("down")

# ---- records ---------------------------------------------------------------------------------------
for f in ("total_read_actions", "total_write_actions", "max_per_unit_read_actions", "max_per_unit_write_actions",
          "total_skipped_first_read_actions", "total_skipped_first_write_actions", "min_per_unit_skipped_first_read_actions",
          "min_per_unit_skipped_first_write_actions", "total_reads_to_parent", "total_writes_to_parent", "total_reads_to_peer",
          "total_skipped_first_reads_to_parent", "min_per_parent_skipped_first_reads_to_parent", "max_per_parent_reads_to_parent",
          "max_per_parent_writes_to_parent", "max_occupancy"):
    P.field(f, REAL)
P.field("buffet_stats", MAP(VAL, OBJ("BuffetStats"), ordered=False))
P.field("tensors", SEQ(ELEM))
P.field("component", ELEM)
P.field("einsum", ELEM)
P.field("direction", MAP(ELEM, ELEM, ordered=False))
P.field("mapping", SEQ(OBJ("MappingNode")))
P.field("job", OBJ("Job"))
P.field("flattened_arch", MAP(ELEM, OBJ("Component"), ordered=False))
P.classes |= {"BuffetStats", "MappingNode", "Job", "Component", "AnalysisInfo", "SymbolicAnalysisOutput", "TensorHolder", "Toll", "Action"}

BUFFET = Function("Buffet", Elem, Elem, Elem, Val)


@P.external("Buffet", "Buffet(tensor, einsum, level): a hashable record, a function of its three fields")
def c_buffet(c):
    t = c.arg("tensor", ELEM)
    e = c.arg("einsum", ELEM)
    l = c.arg("level", ELEM)
    c.result_is(BUFFET(t, e, l))


@P.external("TensorName", "TensorName(str): the same name")
def c_tensorname(c):
    t = c.arg("x", ELEM)
    c.result_is(t)


# ---- analyze_storage, assumed at its call site --------------------------------------------------------
@P.external("analyze_storage", "analyze_storage (whole): assumed; see the slice below for its action conversion")
def c_analyze_storage(c):
    node_idx = c.arg("node_idx", INT)
    c.arg("current_shape", VAL)
    info = c.arg("info", OBJ("AnalysisInfo"))
    c.arg("propagate_child_results", BOOL, default=False)
    up = c.arg("count_upward_movement", MAP(ELEM, BOOL, ordered=False))
    down = c.arg("count_downward_movement", MAP(ELEM, BOOL, ordered=False))
    cw = c.arg("count_writes", BOOL, default=True)
    ex = c.ex
    mapping = ex.read_field(info, "mapping")
    node = ObjV(at(mapping, node_idx), "MappingNode")
    tensors = ex.read_field(node, "tensors")
    comp = ex.read_field(node, "component")
    einsum = ex.read_field(ObjV(at(mapping, mapping.n - 1), "MappingNode"), "einsum")
    direction = ex.read_field(ex.map_get(ex.read_field(ex.read_field(info, "job"), "flattened_arch"), comp), "direction")
    j = Int("sj")
    t = lambda k: at(tensors, k)
    # what the Toll asks for: count movement in the configured direction(s) only
    c.pre("upward_movement_counted_iff_direction_is_up_or_up_and_down", ForAll([j], Implies(And(j >= 0, j < tensors.n), And(Select(up.dom, t(j)), Select(up.val, t(j)) == (Select(direction.val, t(j)) != DOWN)))))
    c.pre("downward_movement_counted_iff_direction_is_down_or_up_and_down", ForAll([j], Implies(And(j >= 0, j < tensors.n), And(Select(down.dom, t(j)), Select(down.val, t(j)) == (Select(direction.val, t(j)) != UP)))))
    c.pre("a_toll_never_counts_writes", Not(cw))
    c.modifies("total_read_actions", "total_write_actions", "max_occupancy", "buffet_stats", "max_per_unit_read_actions", "max_per_unit_write_actions")
    res = c.result(OBJ("SymbolicAnalysisOutput"))
    bs = lambda r: ex.read_field(r, "buffet_stats")

    def post(r):
        b = lambda k: BUFFET(t(k), einsum, comp)
        st = lambda k: Select(bs(r).val, b(k))
        return ForAll([j], Implies(And(j >= 0, j < tensors.n), And(Select(bs(r).dom, b(j)), st(j) != NULL,
                      Implies(Not(cw), Select(ex.heap_arrays("total_write_actions")[0], st(j)) == 0))))

    c.post("stats_exist_for_every_tensor_of_the_node_and_hold_no_write_actions_when_writes_are_not_counted", post)


@P.fn(S, "analyze_toll")
def c_analyze_toll(c):
    node_idx = c.arg("node_idx", INT)
    c.arg("current_shape", VAL)
    info = c.arg("info", OBJ("AnalysisInfo"))
    ex = c.ex
    heap0 = ex.heap0_view() if c.mode == "verify" else None
    mapping = ex.read_field(info, "mapping")
    c.pre("node_index_in_range", And(node_idx >= 0, node_idx < mapping.n))
    node = ObjV(at(mapping, node_idx), "MappingNode")
    tensors = ex.read_field(node, "tensors")
    comp = ex.read_field(node, "component")
    einsum = ex.read_field(ObjV(at(mapping, mapping.n - 1), "MappingNode"), "einsum")
    farch = ex.read_field(ex.read_field(info, "job"), "flattened_arch")
    direction = ex.read_field(ex.map_get(farch, comp), "direction")
    j, k = Ints("tj tk")
    c.pre("component_is_in_the_flattened_arch", Select(farch.dom, comp))
    c.pre("direction_is_given_for_every_tensor_of_the_node", ForAll([j], Implies(And(j >= 0, j < tensors.n), Select(direction.dom, at(tensors, j)))))
    c.modifies("total_read_actions", "total_write_actions", "max_occupancy", "buffet_stats", "max_per_unit_read_actions", "max_per_unit_write_actions")
    c.result(OBJ("SymbolicAnalysisOutput"))
    H = lambda f: ex.heap_arrays(f)[0]

    def stat(r, q):
        return Select(ex.read_field(r, "buffet_stats").val, BUFFET(at(tensors, q), einsum, comp))

    c.post("a_toll_holds_nothing", lambda r: ForAll([j], Implies(And(j >= 0, j < tensors.n), Select(H("max_occupancy"), stat(r, j)) == 0)))
    c.post("a_toll_writes_nothing", lambda r: ForAll([j], Implies(And(j >= 0, j < tensors.n), Select(H("total_write_actions"), stat(r, j)) == 0)))

    def inv(L):
        r = L.v("storage_result")
        bsm = ex.read_field(r, "buffet_stats")
        return [
            ("stats_exist", ForAll([j], Implies(And(j >= 0, j < tensors.n), And(Select(bsm.dom, BUFFET(at(tensors, j), einsum, comp)), stat(r, j) != NULL)))),
            ("no_write_actions", ForAll([j], Implies(And(j >= 0, j < tensors.n), Select(H("total_write_actions"), stat(r, j)) == 0))),
            ("occupancy_zeroed_so_far", ForAll([j], Implies(And(j >= 0, j < L.k), Select(H("max_occupancy"), stat(r, j)) == 0))),
        ]

    c.invariant("L0", inv)


# ---- analyze_storage: conversion of data movement into actions (SLICE) ----------------------------------
@P.slice(S, "analyze_storage", "actions", "if count_downward_movement[tensor]:", "if child is not None:")
def c_storage_actions(c):
    stats = c.var("stats", OBJ("BuffetStats"))
    child = c.var("child", OPT(OBJ("BuffetStats")))
    down = c.var("count_downward_movement", MAP(ELEM, BOOL, ordered=False))
    up = c.var("count_upward_movement", MAP(ELEM, BOOL, ordered=False))
    t = c.var("tensor", ELEM)
    rs = c.var("read_scale", REAL)
    ws = c.var("write_scale", REAL)
    c.var("n_active_physical_units", REAL)
    c.var("skip_initial", BOOL)
    ex = c.ex
    c.pre("flags_are_given_for_the_tensor", And(Select(down.dom, t), Select(up.dom, t)))
    c.pre("child_stats_are_another_object", Or(child.isnone, And(child.val.ref != stats.ref, child.val.ref != NULL)))
    c.modifies("total_read_actions", "total_write_actions", "max_per_unit_read_actions", "max_per_unit_write_actions", "total_skipped_first_read_actions",
               "total_skipped_first_write_actions", "min_per_unit_skipped_first_read_actions", "min_per_unit_skipped_first_write_actions")
    heap0 = ex.heap0_view()
    old = lambda f, o: Select(ex.heap_arrays(f, heap0)[0], o)
    cur = lambda f, o: Select(ex.heap_arrays(f)[0], o)
    D, U = Select(down.val, t), Select(up.val, t)
    s_, ch = stats.ref, child.val.ref
    has_child = Not(child.isnone)
    reads = (old("total_read_actions", s_) + If(U, old("total_writes_to_parent", s_) * rs, 0) + old("total_reads_to_peer", s_) * rs
             + If(And(has_child, D), old("total_reads_to_parent", ch) * rs, 0))
    writes = (old("total_write_actions", s_) + If(D, old("total_reads_to_parent", s_) * ws, 0) + old("total_reads_to_peer", s_) * ws
              + If(And(has_child, U), old("total_writes_to_parent", ch) * ws, 0))
    c.post("reads_are_charged_per_value_moved_in_the_counted_directions_only", lambda res: cur("total_read_actions", s_) == reads)
    c.post("writes_are_charged_per_value_moved_in_the_counted_directions_only", lambda res: cur("total_write_actions", s_) == writes)
    c.post("no_write_actions_when_writes_are_not_counted", lambda res: Implies(ws == 0, cur("total_write_actions", s_) == old("total_write_actions", s_)))
    o = Const("so", Ref)
    for f in ("total_read_actions", "total_write_actions"):
        c.post(f"only_this_buffet_changes.{f}", lambda res, f=f: ForAll([o], Implies(o != s_, cur(f, o) == old(f, o))))


# ---- TensorHolder._get_values_per_action ----------------------------------------------------------------
P.field("actions", SEQ(OBJ("Action")))
P.field("name", ELEM)
P.field("values_per_action", MAP(ELEM, REAL, ordered=False))
P.field("bits_per_value", MAP(ELEM, REAL, ordered=False))
P.field("bits_per_action", REAL)
P.by_name_lists |= {"Action"}


@P.fn(C, "TensorHolder._get_values_per_action")
def c_vpa(c):
    self_ = c.arg("self", OBJ("Component"))
    an = c.arg("action_name", ELEM)
    t = c.arg("tensor_name", ELEM)
    dflt = c.arg("bits_per_value_default", REAL)
    ex = c.ex
    acts = ex.read_field(self_, "actions")
    p, q = Ints("vp vq")
    names = ex.heap_arrays("name")[0]
    c.pre("action_names_distinct", ForAll([p, q], Implies(And(p >= 0, p < q, q < acts.n), Select(names, at(acts, p)) != Select(names, at(acts, q)))))
    c.pre("the_action_exists", ex.by_name_exists(acts, an))
    c.pre("actions_allocated", ForAll([p], Implies(And(p >= 0, p < acts.n), at(acts, p) != NULL), patterns=[at(acts, p)]))
    a = ObjV(at(ex.materialize(acts), ex.by_name_index(acts)(an)), "Action")
    avpa, svpa, bpv = ex.read_field(a, "values_per_action"), ex.read_field(self_, "values_per_action"), ex.read_field(self_, "bits_per_value")
    bpa = ex.read_field(a, "bits_per_action")
    c.pre("bits_per_value_positive", And(dflt > 0, ForAll([Const("vt", Elem)], Implies(Select(bpv.dom, Const("vt", Elem)), Select(bpv.val, Const("vt", Elem)) > 0))))
    c.result(REAL)
    want = If(Select(avpa.dom, t), Select(avpa.val, t), If(Select(svpa.dom, t), Select(svpa.val, t), bpa / If(Select(bpv.dom, t), Select(bpv.val, t), dflt)))
    c.post("action_level_then_component_level_then_bits_per_action_over_bits_per_value", lambda r: VV.to_real(r) == want)


# ---- run_model: a Toll is never the outermost holder of a fusable tensor (SLICE) --------------------------
P.field("nodes", SEQ(OBJ("?")))
P.field("fusable_tensors", SET(ELEM))
P.field("einsum_name", ELEM)
P.generic_seq_mem(Elem)
P.class_parents["Toll"] = ["TensorHolder"]
P.class_parents["TensorHolder"] = ["MappingNode"]


@P.slice(R, "run_model", "outermost_holder", "tensor_to_backing = {}", "for node in pmapping.nodes: if isinstance(node, Toll)")
def c_outermost(c):
    pm = c.var("pmapping", OBJ("Pmapping"))
    job = c.var("job", OBJ("Job"))
    c.local("tensor_to_backing", MAP(ELEM, ELEM, ordered=False))
    ex = c.ex
    nodes = ex.read_field(pm, "nodes")
    fus = ex.read_field(job, "fusable_tensors")
    p, q, j = Ints("hp hq hj")
    t = Const("ht", Elem)
    c.pre("nodes_allocated", ForAll([p], Implies(And(p >= 0, p < nodes.n), at(nodes, p) != NULL), patterns=[at(nodes, p)]))
    node = lambda k: ObjV(at(nodes, k), "?")
    is_holder = lambda k: P.isinstance_formula(ex, node(k), ["TensorHolder"])
    is_toll = lambda k: P.isinstance_formula(ex, node(k), ["Toll"])
    tens = lambda k: ex.read_field(ObjV(at(nodes, k), "MappingNode"), "tensors")
    comp = lambda k: ex.read_field(ObjV(at(nodes, k), "MappingNode"), "component")
    holds = lambda k, x: And(k >= 0, k < nodes.n, is_holder(k), mem(tens(k), x))
    # ghost: the index of the outermost (first) node holding a tensor
    FIRST = c.ghost("FIRST", ArraySort(Elem, IntSort()), lambda g: ForAll([t, q], Implies(holds(q, t), And(holds(Select(g, t), t), Select(g, t) <= q))))
    first = lambda x: Select(FIRST, x)
    held = lambda x: holds(first(x), x)
    c.raises("ValueError", when=None)
    c.post("no_toll_is_the_outermost_holder_of_a_fusable_tensor",
           lambda res: ForAll([p, t], Implies(And(p >= 0, p < nodes.n, is_toll(p), mem(tens(p), t), Select(fus.arr, t)), comp(first(t)) != comp(p))))

    def backing_spec(m, k, jj=None):
        """tensor_to_backing after the nodes before k (and the first jj tensors of node k)"""
        seen = lambda x: Or(first(x) < k, And(first(x) == k, mem_index(tens(k), x) < jj)) if jj is not None else first(x) < k
        return [
            ("keys_are_the_fusable_tensors_held_so_far", ForAll([t], Select(m.dom, t) == And(Select(fus.arr, t), held(t), seen(t)), patterns=[Select(m.dom, t)])),
            ("value_is_the_component_of_the_outermost_holder", ForAll([t], Implies(Select(m.dom, t), Select(m.val, t) == comp(first(t))), patterns=[Select(m.val, t)])),
        ]

    def inv_nodes(L):
        return backing_spec(L.v("tensor_to_backing"), L.k)

    def inv_tensors(L):
        k = L.outer.k
        ts = tens(k)
        m = L.v("tensor_to_backing")
        seen = lambda x: Or(first(x) < k, And(first(x) == k, Exists([j], And(j >= 0, j < L.k, at(ts, j) == x))))
        return [
            ("keys_are_the_fusable_tensors_held_so_far", ForAll([t], Select(m.dom, t) == And(Select(fus.arr, t), held(t), seen(t)), patterns=[Select(m.dom, t)])),
            ("value_is_the_component_of_the_outermost_holder", ForAll([t], Implies(Select(m.dom, t), Select(m.val, t) == comp(first(t))), patterns=[Select(m.val, t)])),
        ]

    def inv_check_nodes(L):
        m = L.v("tensor_to_backing")
        return backing_spec(m, nodes.n) + [("tolls_checked_so_far_are_not_outermost", ForAll([p, t], Implies(And(p >= 0, p < L.k, is_toll(p), mem(tens(p), t), Select(fus.arr, t)), comp(first(t)) != comp(p))))]

    def inv_check_tensors(L):
        m = L.v("tensor_to_backing")
        k = L.outer.k
        ts = tens(k)
        return backing_spec(m, nodes.n) + [
            ("tolls_checked_so_far_are_not_outermost", ForAll([p, t], Implies(And(p >= 0, p < k, is_toll(p), mem(tens(p), t), Select(fus.arr, t)), comp(first(t)) != comp(p)))),
            ("tensors_of_this_toll_checked_so_far", ForAll([j], Implies(And(j >= 0, j < L.k, Select(fus.arr, at(ts, j))), comp(first(at(ts, j))) != comp(k)), patterns=[at(ts, j)])),
        ]

    c.invariant("L0", inv_nodes)
    c.invariant("L1", inv_tensors)
    c.invariant("L2", inv_check_nodes)
    c.invariant("L3", inv_check_tensors)
