"""C27 — recomputing component costs on a costed spec changes nothing.

Real code: accelforge/frontend/spec.py  Spec.calculate_component_costs  (SLICE: the loop over
the architecture's nodes that calculates and writes back the costs).

Genuine defect F6 (costs re-scaled on every call: area 40 -> 160 -> 640 ...) was repaired in /repo
(fix: commit): each component records which kinds of cost were already calculated
(`_costs_calculated`) and those are not calculated -- hence not scaled -- again.  Two contracts on
the same slice carry the property:
  costed   : on a spec whose components are all marked for the requested kinds, the loop changes no
             area / leak_power / total_* / per-action energy or throughput of any existing object and
             keeps every mark.
That one call leaves every visited component marked for the kinds it calculated (so that the returned
spec satisfies this precondition) is straight-line in the loop body (`calculated | {kind}` after each
calculation, written back at the end of the iteration); it is exercised by the bounded cross-check on
real Specs with call histories of length 1-3 and flag subsets, not proved.
The copy made before the loop on an already evaluated spec (model_copy(deep=True)) is assumed to
preserve field values and the marks (pydantic keeps instance __dict__ entries; checked by the
bounded cross-check on real Specs with call histories of length 1-3).
"""
import z3
from vf.dsl import *
import vf.values as VV
from contracts import archmodel

P = Property("C27", "Recomputing component costs on a costed spec changes nothing")
F = "accelforge/frontend/spec.py"
P.oracle = "C27"
archmodel.install(P)
P.assume_note("assumed contracts: ArchNode.iterate_hierarchically yields (node, parents) pairs of existing nodes; ArchNode.find(name) returns an existing node; Component.calculate_* (not in place) return a fresh copy and change no existing object; Spatialable.get_fanout is pure")
P.assume_note("assumed: an absent `_costs_calculated` attribute reads as the empty set (getattr default); Spec.model_copy / arch.model_copy(deep=True) preserve field values and `_costs_calculated` (pydantic copies the instance __dict__)")
P.assume_note("A-REAL: cost values are reals")

KINDS = ["area", "energy", "throughput", "leak"]
COSTS = ["area", "total_area", "leak_power", "total_leak_power", "energy", "throughput"]
P.field("arch", OBJ("Arch"))
P.field("name", ELEM)
P.field("_costs_calculated", SET(ELEM))
for f in ("area", "total_area", "leak_power", "total_leak_power", "energy", "throughput"):
    P.field(f, OPT(REAL))
P.field("actions", SEQ(OBJ("Action")))
P.field("component_modeling_log", SEQ(VAL))
P.field("component_model", VAL)
P.by_name_lists |= {"Action"}
P.classes |= {"Action"}
ITEM = TUP(OBJ(), SEQ(OBJ()))
FAN = Function("fanout_of", Ref, RealSort())


@P.external("iterate_hierarchically", "generator over the architecture: (node, parents) pairs; every yielded node and parent existed before the call")
def c_iter(c):
    c.arg("self", OBJ("Arch"))
    out = c.result(SEQ(ITEM))
    k, j = Ints("ik ij")
    node = lambda t: Select(arrs_of(out)[0], t)
    c.post("yields_existing_nodes", lambda r: ForAll([k], Implies(And(k >= 0, k < out.n), And(P.alloc0(node(k)), node(k) != NULL, archmodel.is_concrete(P, node(k)))), patterns=[node(k)]))


@P.external("find", "ArchNode.find(name): the existing node with that name (raises ValueError if there is none)", modifies=[])
def c_find(c):
    c.arg("self", OBJ("Arch"))
    nm = c.arg("name", ELEM)
    r = c.result(OBJ())
    c.post("an_existing_node_with_that_name", lambda r: And(P.alloc0(r.ref), r.ref != NULL, archmodel.is_concrete(P, r.ref), Select(c.ex.heap_arrays("name")[0], r.ref) == nm))


@P.external("get_fanout", "Spatialable.get_fanout(): pure", modifies=[])
def c_fanout(c):
    s = c.arg("self", OBJ())
    c.result_is(FAN(s.ref))


def calc_contract(which):
    def contract(c):
        s = c.arg("self", OBJ())
        c.arg("component_models", VAL)
        c.modifies(*COSTS, "actions", "component_modeling_log", "component_model", "name", "_costs_calculated")
        r = c.result(OBJ())
        old = c._old_heap
        o = Const("co", Ref)
        # a fresh copy; nothing that existed is touched (in_place=False)
        c.post("fresh_copy", lambda r: And(Not(P.alloc0(r.ref)), r.ref != NULL, P.class_tag(r.ref) == P.class_tag(s.ref)))
        for f in COSTS + ["actions", "component_modeling_log", "component_model", "name", "_costs_calculated"]:
            def fr(r, f=f):
                cur, was = c.ex.heap_arrays(f), c.ex.heap_arrays(f, old)
                return ForAll([o], Implies(P.alloc0(o), And(*[Select(a, o) == Select(b, o) for a, b in zip(cur, was)])))
            c.post(f"frame.{f}", fr)
        j = Int("cj")
        acts = c.ex.read_field(r, "actions") if False else None
        c.post("copied_actions_are_fresh", lambda r: ForAll([j], Implies(And(j >= 0, j < c.ex.read_field(r, "actions").n), Not(P.alloc0(at(c.ex.read_field(r, "actions"), j))))))
    return contract


for _m in ("calculate_area", "calculate_action_energy", "calculate_action_throughput", "calculate_leak_power"):
    P.external(_m, f"Component.{_m}(models) with in_place=False: returns a copy carrying the calculated values")(calc_contract(_m))


def slice_common(c):
    self_ = c.var("self", OBJ("Spec"))
    c.var("models", VAL)
    flags = {k: c.var(k, BOOL) for k in KINDS}
    c.local("calculated", SET(ELEM))
    c.modifies(*COSTS, "_costs_calculated", "component_modeling_log", "component_model", "actions", "name")
    return self_, flags


def requested_marked(c, ref, flags, heap=None):
    m = Select(c.ex.heap_arrays("_costs_calculated", heap)[0], ref)
    return And(*[Implies(flags[k], Select(m, P.elem_of_str(k))) for k in KINDS])


START, END = "for leaf, parents in self.arch.iterate_hierarchically():", "for leaf, parents in self.arch.iterate_hierarchically():"


@P.slice(F, "Spec.calculate_component_costs", "costed_spec_is_unchanged", START, END)
def c_costed(c):
    self_, flags = slice_common(c)
    ex = c.ex
    heap0 = ex.heap0_view()
    o = Const("po", Ref)
    # "a spec whose costs were already computed": every component is marked for the requested kinds
    a_, b_ = Consts("ua ub", Ref)
    nm0 = ex.heap_arrays("name", heap0)[0]
    # node names are unique (Spec._get_flattened_architecture rejects duplicates; with duplicates the
    # write-back of this loop goes to the first node of that name)
    c.pre("node_names_unique", ForAll([a_, b_], Implies(And(P.alloc0(a_), P.alloc0(b_), archmodel.is_concrete(P, a_), archmodel.is_concrete(P, b_), Select(nm0, a_) == Select(nm0, b_)), a_ == b_)))
    c.pre("every_component_already_costed", ForAll([o], Implies(And(P.alloc0(o), archmodel.is_a(P, o, "Component")), requested_marked(c, o, flags, heap0))))
    # a kind recorded as calculated has its per-instance value set (what the first call establishes: C26's
    # postconditions `value set` + `requested_kinds_are_recorded_as_calculated`); the totals are recomputed from it
    m0 = lambda o_: Select(ex.heap_arrays("_costs_calculated", heap0)[0], o_)
    isnone0 = lambda f, o_: Select(ex.heap_arrays(f, heap0)[0], o_)
    c.pre("calculated_values_are_set", ForAll([o], Implies(And(P.alloc0(o), archmodel.is_a(P, o, "Component")),
          And(Implies(Select(m0(o), P.elem_of_str("area")), Not(isnone0("area", o))), Implies(Select(m0(o), P.elem_of_str("leak")), Not(isnone0("leak_power", o)))))))

    def unchanged(fields):
        def f_(res=None):
            out = []
            for f in fields:
                cur, was = ex.heap_arrays(f), ex.heap_arrays(f, heap0)
                out.append(ForAll([o], Implies(P.alloc0(o), And(*[Select(a, o) == Select(b, o) for a, b in zip(cur, was)]))))
            return And(*out)
        return f_

    # (total_area / total_leak_power are recomputed from the unchanged per-instance values and the current
    #  hierarchy on every call: that they are right is C26; the property here is about the four costs)
    KEPT = ["area", "leak_power", "energy", "throughput"]
    for f in KEPT:
        c.post(f"same_{f}", unchanged([f]))
    c.post("same_actions", unchanged(["actions"]))
    c.post("marks_only_grow", lambda res: ForAll([o], Implies(And(P.alloc0(o), archmodel.is_a(P, o, "Component")), requested_marked(c, o, flags))))

    def inv(L):
        return [(f"same_{f}", unchanged([f])()) for f in KEPT + ["actions", "name"]] + [
            ("still_marked", ForAll([o], Implies(And(P.alloc0(o), archmodel.is_a(P, o, "Component")), requested_marked(c, o, flags))))]

    c.invariant("L0", inv)
    for lid in ("L1", "L2", "L3"):
        c.invariant(lid, inv)
