"""Shared model of the architecture classes (frontend/arch): class lattice and common fields."""
from vf.dsl import *

PARENTS = {
    "ArchNode": [], "Leaf": ["ArchNode"], "Branch": ["ArchNode"], "Spatialable": [],
    "Component": ["Spatialable"], "Container": ["Leaf", "Spatialable"], "TensorHolder": ["Component", "Leaf"],
    "Memory": ["TensorHolder"], "Toll": ["TensorHolder"], "Compute": ["Component", "Leaf"], "Network": ["Component", "Leaf"],
    "Array": ["Branch", "Spatialable"], "Hierarchical": ["Branch"], "Fork": ["Hierarchical"], "Arch": ["Hierarchical"],
}
CONCRETE = ["Container", "Memory", "Toll", "Compute", "Network", "Array", "Hierarchical", "Fork", "Arch"]


def install(P):
    for c, ps in PARENTS.items():
        P.class_parents[c] = list(ps)
        P.classes.add(c)
        P.class_id(c)


def is_a(P, ref, cls):
    """ref's dynamic class is cls or a subclass (over the symbolic class tag)"""
    return Or(*[P.class_tag(ref) == P.class_id(s) for s in sorted(P.subclasses(cls))])


def is_concrete(P, ref):
    return Or(*[P.class_tag(ref) == P.class_id(s) for s in CONCRETE])
