"""C10, third clause: the mapspace-size count equals a brute-force count of factorisation chains.

_count_factorizations(n, p) for an imperfection pattern p (a tuple of bools, one per loop):
a chain picks the outermost factor s -- any 1 <= s <= n for an imperfect loop, a divisor of n for a
perfect one -- and continues on ceil(n / s) with the remaining loops.  The brute-force count is

    chains(n, p) = 1                                                     if len(p) <= 1
                 = sum_{s = 1..n}          chains(ceil(n / s), p[1:])     if p[0]   (imperfect)
                 = sum_{d in divisors(n)}  chains(n / d,        p[1:])     otherwise (perfect)

The property quantifies over every pattern of length <= 4: one contract instance (label) per
pattern, each proved for every n >= 1.  divisors(n) is the increasing enumeration of the set
{d | 1 <= d <= n, d divides n} (sorted_enum / sorted_len are functions of that set, see
vf/builtins.set_enumeration), which is also what _divisors is proved to return.
"""
import itertools
import z3
from vf.dsl import *
import vf.values as VV


def install(P, MF, dvd, D, C, R):
    from contracts import lib_sum

    S = lib_sum.install(P)
    IA = ArraySort(IntSort(), IntSort())
    SA = ArraySort(IntSort(), BoolSort())
    DIVSET = Function("divisor_set", IntSort(), SA)
    n_, x_, i_ = Ints("cn cx ci")
    P.hint("def.divisor_set", ForAll([n_, x_], Select(DIVSET(n_), x_) == And(x_ >= 1, x_ <= n_, dvd(x_, n_)), patterns=[Select(DIVSET(n_), x_)]))
    sorted_enum = Function("sorted_enum", SA, IA)
    sorted_len = Function("sorted_len", SA, IntSort())

    patterns = [p for L in range(0, 5) for p in itertools.product([False, True], repeat=L)]
    name = lambda p: "p" + "".join("I" if b else "P" for b in p) if p else "p_"
    CH = {p: Function("chains_" + name(p), IntSort(), IntSort()) for p in patterns}
    TA = {p: Function("chain_terms_" + name(p), IntSort(), IA) for p in patterns if len(p) >= 2}

    for p in patterns:
        if len(p) <= 1:
            P.hint(f"def.chains.{name(p)}", ForAll([n_], CH[p](n_) == 1, patterns=[CH[p](n_)]))
            continue
        tail = p[1:]
        if p[0]:  # imperfect outermost loop: every s in 1..n
            P.hint(f"def.chain_terms.{name(p)}", ForAll([n_, i_], Select(TA[p](n_), i_) == CH[tail](C(n_, i_ + 1)), patterns=[Select(TA[p](n_), i_)]))
            P.hint(f"def.chains.{name(p)}", ForAll([n_], CH[p](n_) == S(TA[p](n_), 0, n_), patterns=[CH[p](n_)]))
        else:  # perfect outermost loop: every divisor d of n, in increasing order
            divs, nd = sorted_enum(DIVSET(n_)), sorted_len(DIVSET(n_))
            P.hint(f"def.chain_terms.{name(p)}", ForAll([n_, i_], Select(TA[p](n_), i_) == CH[tail](D(n_, Select(divs, i_))), patterns=[Select(TA[p](n_), i_)]))
            P.hint(f"def.chains.{name(p)}", ForAll([n_], CH[p](n_) == S(TA[p](n_), 0, nd), patterns=[CH[p](n_)]))

    def same_pattern(v, p):
        return isinstance(v, VV.Tup) and len(v.items) == len(p) and all(z3.is_true(a) == b and (z3.is_true(a) or z3.is_false(a)) for a, b in zip(v.items, p))

    def make(p):
        def contract(c):
            n = c.arg("n", INT)
            pv = c.arg("imperfect_per_loop", CONST(tuple(p)))
            if c.mode == "verify":
                pv = VV.Tup([BoolVal(b) for b in p])
                c.args["imperfect_per_loop"] = pv
            c.applies(same_pattern(pv, p))
            c.pre("n_ge_1", n >= 1)
            c.decreases(IntVal(len(p)))
            c.result_is(CH[p](n))  # a pure function of (n, pattern): callers get the spec term itself
            c.post("equals_brute_force_chain_count", lambda r: r == CH[p](n))
        return contract

    for p in patterns:
        P.fn(MF, "_count_factorizations", label=name(p), hints=["DIV", "TILES", "SUM"])(make(p))
    return DIVSET, sorted_enum, sorted_len
