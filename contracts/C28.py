"""C28 — result breakdowns aggregate consistently to the reported totals.

Real code: accelforge/mapper/FFM/mappings.py, statement ranges (SLICES) of Mappings.energy / actions / latency /
resource_usage: the aggregation loops.  `result` maps a full key (Einsum, component, tensor, action) to a
value (one row of a pandas Series; Series arithmetic is pointwise -- assumed).  Which columns end up under
which key (Mappings.access / _get_cols: '<SEP>' string parsing over pandas) is NOT under contract; the
bounded cross-check (oracles/C28.py) covers it.
"""
import z3
from vf.dsl import *
import vf.values as VV

P = Property("C28", "Result breakdowns aggregate consistently to the reported totals")
F = "accelforge/mapper/FFM/mappings.py"
P.oracle = "C28"
P.assume_note("values are reals (one row of a pandas Series; pandas / numpy arithmetic and np.maximum are pointwise)")
P.assume_note("a tuple of key items is an opaque value that is a function of its items (Theory.val_tuple)")

SR = P.theory.sum_real
RA = ArraySort(IntSort(), RealSort())
_a, _b = Consts("sa sb", RA)
_lo, _hi = Ints("slo shi")
P.hint("def.sum_real.empty", ForAll([_a, _lo], SR(_a, _lo, _lo) == 0, patterns=[SR(_a, _lo, _lo)]))
P.hint("def.sum_real.step", ForAll([_a, _lo, _hi], Implies(_hi > _lo, SR(_a, _lo, _hi) == SR(_a, _lo, _hi - 1) + Select(_a, _hi - 1)), patterns=[SR(_a, _lo, _hi)]))
ITEM = P.theory.item
TUPLE = P.theory.val_tuple


def projection(qualname, label):
    """for key, value in result.items(): new_result[tuple(key[i] for i in keep_indices)] += value"""

    @P.slice(F, qualname, label, "new_result = defaultdict(float)", "result = new_result")
    def c_project(c):
        result = c.var("result", MAP(VAL, REAL))
        keep = c.var("keep_indices", SEQ(INT))
        c.local("new_result", MAP(VAL, REAL))
        ex = c.ex
        (ka,) = arrs_of(result.keys)
        n = result.keys.n
        K = lambda i: Select(ka, i)
        Vv = lambda i: Select(result.val, K(i))
        # the group of a full key: the tuple of its kept items (a definition)
        PA = Function(fresh_name("kept_items"), Val, ArraySort(IntSort(), Val))
        kk, q = Const("pk", Val), Int("pq")
        g = Const("pg", Val)
        i = Int("pi")
        ex.assume(ForAll([kk, q], Select(PA(kk), q) == ITEM(kk, at(keep, q)), patterns=[Select(PA(kk), q)]))
        group = lambda key: TUPLE(PA(key), keep.n)

        # GS(g, k) = sum over i < k of (value_i if group(key_i) == g else 0): defined by recursion on k
        GS = Function(fresh_name("group_sum"), Val, IntSort(), RealSort())
        ex.assume(ForAll([g], GS(g, 0) == 0, patterns=[GS(g, 0)]))
        ex.assume(ForAll([g, i], Implies(And(i >= 0, i < n), GS(g, i + 1) == GS(g, i) + If(group(K(i)) == g, Vv(i), RealVal(0))), patterns=[GS(g, i + 1)]))

        def group_sum(upto):
            return GS(g, upto)

        def spec(m, upto):
            return [
                ("a_group_has_an_entry_iff_some_key_maps_to_it", forall([g], Select(m.dom, g) == Exists([i], And(i >= 0, i < upto, group(K(i)) == g)), patterns=[Select(m.dom, g)])),
                ("each_entry_is_the_sum_of_the_values_of_its_group", forall([g], If(Select(m.dom, g), Select(m.val, g), RealVal(0)) == group_sum(upto), patterns=[group_sum(upto)])),
            ]

        for nm, _ in spec(result, n):
            pass
        c.post("a_group_has_an_entry_iff_some_key_maps_to_it", lambda res: spec(res["result"], n)[0][1])
        c.post("each_entry_is_the_sum_of_the_values_of_its_group", lambda res: spec(res["result"], n)[1][1])
        c.invariant("L0", lambda L: spec(L.v("new_result"), L.k))

    return c_project


projection("Mappings.energy", "project_energy")
projection("Mappings.actions", "project_actions")


def keep_indices(qualname, label, flag_names):
    """keep_indices = [i for which the i-th flag is set], in increasing order"""

    @P.slice(F, qualname, label, "keep_indices = []", "for i, idx in enumerate(")
    def c_keep(c):
        flags = [c.var(nm, BOOL) for nm in flag_names] + ([BoolVal(True)] if len(flag_names) == 3 else [])
        c.local("keep_indices", SEQ(INT))
        p, q = Ints("kp kq")

        def spec(keep, upto):
            return [
                ("kept_positions_are_the_set_flags", And(*[Implies(IntVal(j) < upto, mem(keep, IntVal(j)) == flags[j]) for j in range(4)])),
                ("increasing_and_below_the_current_position", And(ForAll([p, q], Implies(And(p >= 0, p < q, q < keep.n), at(keep, p) < at(keep, q))),
                                                                   forall([p], Implies(And(p >= 0, p < keep.n), And(at(keep, p) >= 0, at(keep, p) < upto)), patterns=[at(keep, p)]))),
            ]

        c.post("kept_positions_are_the_set_flags", lambda res: spec(c.ex.materialize(res["keep_indices"]), IntVal(4))[0][1])
        c.post("in_increasing_order", lambda res: spec(c.ex.materialize(res["keep_indices"]), IntVal(4))[1][1])
        c.invariant("L0", lambda L: spec(c.ex.materialize(L.v("keep_indices")), L.k))

    return c_keep


keep_indices("Mappings.energy", "keep_energy", ["per_einsum", "per_component", "per_tensor", "per_action"])
keep_indices("Mappings.actions", "keep_actions", ["per_einsum", "per_component", "per_tensor"])


# ---- latency ------------------------------------------------------------------------------------------
def latency_common(c):
    result = c.var("result", MAP(VAL, REAL))
    (ka,) = arrs_of(result.keys)
    n = result.keys.n
    K = lambda i: Select(ka, i)
    Vv = lambda i: Select(result.val, K(i))
    return result, n, K, Vv


@P.slice(F, "Mappings.latency", "max_over_components", "new_result = {}", "result = new_result")
def c_latency_max(c):
    """not per_component: per Einsum, the maximum over its components"""
    result, n, K, Vv = latency_common(c)
    c.local("new_result", MAP(VAL, REAL))
    ex = c.ex
    e, i = Const("le", Val), Int("li")
    ein = lambda i_: ITEM(K(i_), 0)
    SEEN = Function(fresh_name("einsum_seen"), Val, IntSort(), BoolSort())
    MX = Function(fresh_name("einsum_max"), Val, IntSort(), RealSort())
    mx = lambda a, b: If(a >= b, a, b)
    ex.assume(ForAll([e], Not(SEEN(e, 0)), patterns=[SEEN(e, 0)]))
    ex.assume(ForAll([e, i], Implies(And(i >= 0, i < n), And(SEEN(e, i + 1) == Or(SEEN(e, i), ein(i) == e),
              MX(e, i + 1) == If(ein(i) == e, If(SEEN(e, i), mx(MX(e, i), Vv(i)), Vv(i)), MX(e, i)))), patterns=[SEEN(e, i + 1)]))

    def spec(m, upto):
        return [("an_einsum_has_an_entry_iff_it_has_a_component", forall([e], Select(m.dom, e) == SEEN(e, upto), patterns=[SEEN(e, upto)])),
                ("the_entry_is_the_maximum_over_its_components", forall([e], Implies(SEEN(e, upto), Select(m.val, e) == MX(e, upto)), patterns=[MX(e, upto)]))]

    c.post("an_einsum_has_an_entry_iff_it_has_a_component", lambda res: spec(res["result"], n)[0][1])
    c.post("the_entry_is_the_maximum_over_its_components", lambda res: spec(res["result"], n)[1][1])
    c.invariant("L0", lambda L: spec(L.v("new_result"), L.k))


@P.slice(F, "Mappings.latency", "sum_over_einsums_per_component", ("new_result = {}", 1), "result = new_result")
def c_latency_component_sum(c):
    """per_component and not per_einsum: per component, the sum over Einsums"""
    result, n, K, Vv = latency_common(c)
    c.local("new_result", MAP(VAL, REAL))
    ex = c.ex
    g, i = Const("lg", Val), Int("lj")
    comp = lambda i_: ITEM(K(i_), 1)
    SEEN = Function(fresh_name("component_seen"), Val, IntSort(), BoolSort())
    GS = Function(fresh_name("component_sum"), Val, IntSort(), RealSort())
    ex.assume(ForAll([g], And(Not(SEEN(g, 0)), GS(g, 0) == 0), patterns=[SEEN(g, 0)]))
    ex.assume(ForAll([g, i], Implies(And(i >= 0, i < n), And(SEEN(g, i + 1) == Or(SEEN(g, i), comp(i) == g),
              GS(g, i + 1) == GS(g, i) + If(comp(i) == g, Vv(i), RealVal(0)))), patterns=[SEEN(g, i + 1)]))

    def spec(m, upto):
        return [("a_component_has_an_entry_iff_it_occurs", forall([g], Select(m.dom, g) == SEEN(g, upto), patterns=[SEEN(g, upto)])),
                ("the_entry_is_the_sum_over_einsums", forall([g], If(Select(m.dom, g), Select(m.val, g), RealVal(0)) == GS(g, upto), patterns=[GS(g, upto)]))]

    c.post("a_component_has_an_entry_iff_it_occurs", lambda res: spec(res["result"], n)[0][1])
    c.post("the_entry_is_the_sum_over_einsums", lambda res: spec(res["result"], n)[1][1])
    c.invariant("L0", lambda L: spec(L.v("new_result"), L.k))


@P.slice(F, "Mappings.latency", "total", "summed = None", "result = summed")
def c_latency_total(c):
    """neither per_einsum nor per_component: the sum of the per-Einsum latencies"""
    result, n, K, Vv = latency_common(c)
    c.local("summed", OPT(REAL))
    i = Int("lt")
    TS = Function(fresh_name("total_sum"), IntSort(), RealSort())
    c.ex.assume(TS(0) == 0)
    c.ex.assume(ForAll([i], Implies(And(i >= 0, i < n), TS(i + 1) == TS(i) + Vv(i)), patterns=[TS(i + 1)]))

    def spec(sm, upto):
        return [("none_iff_nothing_summed", sm.isnone == (upto == 0)), ("sum_so_far", Implies(Not(sm.isnone), sm.val == TS(upto)))]

    def final(res):
        r = res["result"]
        return And(*[f for _, f in spec(r, n)]) if isinstance(r, VV.OptV) else BoolVal(False)

    c.post("total_is_the_sum_of_the_per_einsum_latencies", final)
    c.invariant("L0", lambda L: spec(L.v("summed"), L.k))


# ---- resource_usage -----------------------------------------------------------------------------------
RES = Function("reservation_column", Val, RealSort())
PARTS = Function("name_parts", Val, ArraySort(IntSort(), Elem))
NPARTS = Function("name_part_count", Val, IntSort())
P.classes |= {"Mappings"}


@P.external("_get_keys_of_length", "Mappings._get_keys_of_length(n): some list of column names", cls="Mappings")
def c_keys_of_length(c):
    c.arg("self", OBJ("Mappings"))
    ln = c.arg("length", INT)
    r = c.result(SEQ(VAL))
    kk = Int("kl")
    c.post("names_with_that_many_parts", lambda r: ForAll([kk], Implies(And(kk >= 0, kk < r.n), NPARTS(at(r, kk)) == ln), patterns=[at(r, kk)]))


@P.external("__getitem__", "Mappings[col]: the column's value (pure)", cls="Mappings")
def c_getcol(c):
    c.arg("self", OBJ("Mappings"))
    k = c.arg("key", VAL)
    c.result_is(RES(k))


@P.slice(F, "Mappings.resource_usage", "max_reservation", "usage = {}", "for col in reservations._get_keys_of_length(3)")
def c_resource_usage(c):
    """usage[resource] = the maximum over that resource's reservation columns (and 0)"""
    c.var("reservations", OBJ("Mappings"))
    c.local("usage", MAP(ELEM, REAL))
    ex = c.ex
    r, i = Const("rr", Elem), Int("ri")
    mx = lambda a, b: If(a >= b, a, b)
    res_of = lambda col: Select(PARTS(col), 0)

    # the ghost functions must be the same in the invariant and the postcondition: build them once per path
    cache = {}

    def spec_once(m, cols, upto):
        key = arrs_of(ex.materialize(cols))[0].get_id()
        if key not in cache:
            SEEN = Function(fresh_name("resource_seen"), Elem, IntSort(), BoolSort())
            MX = Function(fresh_name("resource_max"), Elem, IntSort(), RealSort())
            (ca,) = arrs_of(ex.materialize(cols))
            col = lambda k: Select(ca, k)
            ex.assume(ForAll([r], And(Not(SEEN(r, 0)), MX(r, 0) == 0), patterns=[SEEN(r, 0)]))
            ex.assume(ForAll([r, i], Implies(And(i >= 0, i < cols.n), And(SEEN(r, i + 1) == Or(SEEN(r, i), res_of(col(i)) == r),
                      MX(r, i + 1) == If(res_of(col(i)) == r, mx(MX(r, i), RES(col(i))), MX(r, i)))), patterns=[SEEN(r, i + 1)]))
            cache[key] = (SEEN, MX)
        SEEN, MX = cache[key]
        return [("a_resource_has_an_entry_iff_it_has_a_reservation_column", forall([r], Select(m.dom, r) == SEEN(r, upto), patterns=[SEEN(r, upto)])),
                ("the_entry_is_the_maximum_reservation_and_at_least_zero", forall([r], Implies(SEEN(r, upto), Select(m.val, r) == MX(r, upto)), patterns=[MX(r, upto)])),
                ("the_maximum_over_no_column_is_zero", forall([r], Implies(Not(SEEN(r, upto)), MX(r, upto) == 0), patterns=[SEEN(r, upto)]))]

    state = {}

    def inv(L):
        state["cols"] = L.seq
        return spec_once(L.v("usage"), L.seq, L.k)

    c.invariant("L0", inv)
    c.post("a_resource_has_an_entry_iff_it_has_a_reservation_column", lambda res: spec_once(res["usage"], state["cols"], state["cols"].n)[0][1])
    c.post("the_entry_is_the_maximum_reservation_and_at_least_zero", lambda res: spec_once(res["usage"], state["cols"], state["cols"].n)[1][1])


# ---- Mappings._get_cols: which columns carry a key (whole function) ---------------------------------------
# A column name is a '<SEP>'-separated list of parts; PARTS / NPARTS give the parts of a column name
# (str.split is assumed to be a pure function, and '<SEP>'.join(parts) to give the name back).
P.field("data", OBJ("DataFrame"))
P.field("columns", SEQ(VAL))
P.classes |= {"DataFrame"}


@P.external("split", "str.split('<SEP>') of a column name: its list of parts (pure; at least one part)")
def c_split_name(c):
    s_ = c.arg("self", VAL)
    c.arg("sep", CONST("<SEP>"))
    if c.mode == "call":
        c.ex.assume(NPARTS(s_) >= 1)
        r = SeqV(Elem, PARTS(s_), NPARTS(s_))
        r.split_of = s_
        c.result_is(r)


@P.external("join", "'<SEP>'.join(parts) of the parts of a column name: that name (split and join are inverse)")
def c_join_name(c):
    c.arg("self", CONST("<SEP>"))
    parts = c.arg("iterable", CONST(None))
    if c.mode == "call":
        src = getattr(parts, "split_of", None)
        if src is None:
            raise VV.Unsupported("join of something other than the unmodified parts of a column name")
        c.result_is(src)


@P.fn(F, "Mappings._get_cols")
def c_get_cols(c):
    self_ = c.arg("self", OBJ("Mappings"))
    key = c.arg("key", ELEM)
    idx = c.arg("col_idx", OPT(INT), default=None)
    c.local("found", SEQ(VAL))
    c.local("found_index", OPT(INT))
    ex = c.ex
    cols = ex.read_field(ex.read_field(self_, "data"), "columns")
    (ca,) = arrs_of(cols)
    C = lambda k: Select(ca, k)
    part = lambda col, j: Select(PARTS(col), j)
    k, j, j2, p, q = Ints("gk gj gj2 gp gq")
    has_key = lambda col: Exists([j], And(j >= 0, j < NPARTS(col), part(col, j) == key))
    at_pos = lambda col, pos: And(pos >= 0, pos < NPARTS(col), part(col, pos) == key)
    once = lambda col: ForAll([j, j2], Implies(And(j >= 0, j < NPARTS(col), j2 >= 0, j2 < NPARTS(col), part(col, j) == key, part(col, j2) == key), j == j2))
    c.pre("every_column_name_has_a_part", ForAll([k], Implies(And(k >= 0, k < cols.n), NPARTS(C(k)) >= 1), patterns=[C(k)]))
    c.pre("requested_position_is_a_position", Or(idx.isnone, idx.val >= 0))
    c.result(TUP(SEQ(VAL), OPT(INT)))
    c.raises("ValueError", when=None)
    # selected(k, pos): column k is selected for key position pos
    sel_given = lambda col: at_pos(col, idx.val)          # a position was requested: the key sits exactly there

    def posts_given(r):
        found, fi = r.items[0], r.items[1]
        found = ex.materialize(found)
        fa = arrs_of(found)[0]
        return And(
            Not(fi.isnone) if isinstance(fi, VV.OptV) else BoolVal(True),
            # every returned name is a column with the key at the requested position, in column order, and every such column is returned
            ForAll([p], Implies(And(p >= 0, p < found.n), Exists([k], And(k >= 0, k < cols.n, C(k) == Select(fa, p), sel_given(C(k)))))),
            ForAll([k], Implies(And(k >= 0, k < cols.n, sel_given(C(k))), mem(found, C(k)))))

    c.post("with_a_requested_position_exactly_the_columns_with_the_key_there", lambda r: Implies(Not(idx.isnone), posts_given(r)))

    def posts_free(r):
        found, fi = r.items[0], r.items[1]
        found = ex.materialize(found)
        fa = arrs_of(found)[0]
        pos = fi.val if isinstance(fi, VV.OptV) else fi
        none = fi.isnone if isinstance(fi, VV.OptV) else BoolVal(False)
        return And(
            ForAll([k], Implies(And(k >= 0, k < cols.n, has_key(C(k))), And(Not(none), at_pos(C(k), pos), mem(found, C(k))))),
            ForAll([p], Implies(And(p >= 0, p < found.n), Exists([k], And(k >= 0, k < cols.n, C(k) == Select(fa, p), has_key(C(k)))))))

    c.post("without_a_position_every_column_with_the_key_at_one_common_position", lambda r: Implies(idx.isnone, posts_free(r)))
    if c.mode != "verify":
        return

    def inv(L):
        found, fi = ex.materialize(L.v("found")), L.v("found_index")
        fa = arrs_of(found)[0]
        n_ = L.k
        sel = lambda col: If(idx.isnone, has_key(col), sel_given(col))
        return [
            ("found_index_is_the_requested_position_or_the_common_one", If(idx.isnone, Implies(Exists([k], And(k >= 0, k < n_, has_key(C(k)))), Not(fi.isnone)), And(Not(fi.isnone), fi.val == idx.val))),
            ("found_are_selected_columns_seen", forall([p], Implies(And(p >= 0, p < found.n), Exists([k], And(k >= 0, k < n_, C(k) == Select(fa, p), sel(C(k))))), patterns=[Select(fa, p)])),
            ("selected_columns_seen_are_found", forall([k], Implies(And(k >= 0, k < n_, sel(C(k))), mem(found, C(k))), patterns=[C(k)])),
            ("without_a_position_seen_columns_have_the_key_at_the_common_position", Implies(idx.isnone, forall([k], Implies(And(k >= 0, k < n_, has_key(C(k))), at_pos(C(k), fi.val)), patterns=[C(k)]))),
        ]

    c.invariant("L0", inv)
