"""C11 — the Pareto filter keeps exactly the non-dominated rows.

Under contract (proof level) are the integer helper kernels of accelforge/mapper/FFM/_pareto_df/fast_pareto.py:
  _is_constant      (column filter: a column is dropped iff all its entries are equal)
  _counting_sort    (grouping by diff code: rows of a group are contiguous, in index order)
The filter core _sfs_bnl_core (float32 row sums, stable argsort, 2-D arrays), _encode_groups, the
prime-factor expansion and fast_pareto_mask itself are NOT under contract: the property is decided for
them by the bounded check only (oracles/C11.py), and the check is registered at level `exploration`.
"""
import z3
from vf.dsl import *
import vf.values as VV

P = Property("C11", "The Pareto filter keeps exactly the non-dominated rows")
F = "accelforge/mapper/FFM/_pareto_df/fast_pareto.py"
P.oracle = "C11"
P.claim_level = "exploration"  # the contracts cover helper kernels only; the bounded check decides the property
P.assume_note("A-NUMBA: numba compiles the verified loops with Python semantics; int64 never overflows for indices / counts bounded by the array length")
P.assume_note("np.zeros / np.empty give arrays of the requested length (zeros / arbitrary content); a[:k].copy() is a new array with the first k items")

IA = ArraySort(IntSort(), IntSort())
CNT = Function("count_of_code_before", IA, IntSort(), IntSort(), IntSort())      # #{i < k | codes[i] == g}
OFFK = Function("count_of_smaller_codes_before", IA, IntSort(), IntSort(), IntSort())  # #{i < k | codes[i] < j}  (codes >= 0)
_a = Const("ca", IA)
_g, _k, _j = Ints("cg ck cj")
P.hint("def.count.zero", ForAll([_a, _g], CNT(_a, _g, 0) == 0, patterns=[CNT(_a, _g, 0)]))
P.hint("def.count.step", ForAll([_a, _g, _k], Implies(_k > 0, CNT(_a, _g, _k) == CNT(_a, _g, _k - 1) + If(Select(_a, _k - 1) == _g, 1, 0)), patterns=[CNT(_a, _g, _k)]))
P.hint("def.prefix.zero", ForAll([_a, _k], OFFK(_a, _k, 0) == 0, patterns=[OFFK(_a, _k, 0)]))
P.hint("def.prefix.step", ForAll([_a, _k, _j], Implies(_j > 0, OFFK(_a, _k, _j) == OFFK(_a, _k, _j - 1) + CNT(_a, _j - 1, _k)), patterns=[OFFK(_a, _k, _j)]))

_la = Const("la", IA)
_lg, _lk, _ld, _lj = Ints("lg lk ld lj")


@P.lemma("COUNT_NONNEG")
def lemma_count_nonneg(L):
    L.induction(_lk, 0, lambda m: CNT(_la, _lg, m) >= 0, patterns=[lambda m: CNT(_la, _lg, m)])


_lm, _lG, _li = Ints("lm lG li")


@P.lemma("COUNT_MONO", uses=["COUNT_NONNEG"])
def lemma_count_mono(L):
    L.induction(_ld, 0, lambda m: CNT(_la, _lg, _lk) <= CNT(_la, _lg, _lk + m), given=[_lk >= 0])
    closed = L.closed.pop()  # bound variables in alphabetical order: la, ld, lg, lk
    L.direct([_lk >= 0, _lk <= _lm], CNT(_la, _lg, _lk) <= CNT(_la, _lg, _lm), using=[L.instance(closed, _la, _lm - _lk, _lg, _lk)],
             patterns=[z3.MultiPattern(CNT(_la, _lg, _lk), CNT(_la, _lg, _lm))], name="mono")


@P.lemma("PREFIX_MONO", uses=["COUNT_NONNEG"])
def lemma_prefix_mono(L):
    L.induction(_ld, 0, lambda m: OFFK(_la, _lk, _lj) <= OFFK(_la, _lk, _lj + m), given=[_lj >= 0, _lk >= 0])
    closed = L.closed.pop()  # la, ld, lj, lk
    L.direct([_lj >= 0, _lj <= _lm, _lk >= 0], OFFK(_la, _lk, _lj) <= OFFK(_la, _lk, _lm), using=[L.instance(closed, _la, _lm - _lj, _lj, _lk)],
             patterns=[z3.MultiPattern(OFFK(_la, _lk, _lj), OFFK(_la, _lk, _lm))], name="mono")


@P.lemma("PREFIX_STEP")
def lemma_prefix_step(L):
    # one more row adds one to the prefix sums of the groups above its code (k = number of rows AFTER adding it)
    L.induction(_lj, 0, lambda m: OFFK(_la, _lk, m) == OFFK(_la, _lk - 1, m) + If(And(Select(_la, _lk - 1) >= 0, Select(_la, _lk - 1) < m), 1, 0), given=[_lk >= 1], patterns=[lambda m: OFFK(_la, _lk, m)])


@P.lemma("PREFIX_ZERO")
def lemma_prefix_zero(L):
    L.induction(_lj, 0, lambda m: OFFK(_la, 0, m) == 0, patterns=[lambda m: OFFK(_la, 0, m)])


@P.lemma("PREFIX_TOTAL", uses=["PREFIX_STEP", "PREFIX_ZERO"])
def lemma_prefix_total(L):
    # with all codes in [0, G), the prefix sum over all G groups counts every row
    L.induction(_lk, 0, lambda m: Implies(ForAll([_li], Implies(And(_li >= 0, _li < m), And(Select(_la, _li) >= 0, Select(_la, _li) < _lG))), OFFK(_la, m, _lG) == m),
                given=[_lG >= 0], patterns=[lambda m: OFFK(_la, m, _lG)])


_ln, _lc = Ints("ln lc")


@P.lemma("SLOT", uses=["COUNT_MONO", "COUNT_NONNEG"])
def lemma_slot(L):
    # row k (code c) goes to slot  start(c) + #earlier rows of c, which lies inside group c
    L.direct([_lk >= 0, _lk < _ln, Select(_la, _lk) == _lc, _lc >= 0],
             And(CNT(_la, _lc, _lk + 1) == CNT(_la, _lc, _lk) + 1, CNT(_la, _lc, _lk + 1) <= CNT(_la, _lc, _ln),
                 OFFK(_la, _ln, _lc + 1) == OFFK(_la, _ln, _lc) + CNT(_la, _lc, _ln),
                 OFFK(_la, _ln, _lc) + CNT(_la, _lc, _lk) < OFFK(_la, _ln, _lc + 1)),
             patterns=[z3.MultiPattern(OFFK(_la, _ln, _lc), CNT(_la, _lc, _lk))], name="slot_inside_group")


@P.fn(F, "_is_constant")
def c_is_constant(c):
    arr = c.arg("arr", NDARRAY(REAL))
    n = c.arg("n", INT)
    c.pre("at_least_one_entry_within_the_array", And(n >= 1, n <= arr.n))
    c.result(BOOL)
    i = Int("ci")
    c.post("true_iff_all_entries_equal", lambda r: r == ForAll([i], Implies(And(i >= 0, i < n), at(arr, i) == at(arr, 0))))
    c.invariant("L0", lambda L: [("entries_seen_equal_the_first", ForAll([i], Implies(And(i >= 1, i < 1 + L.k), at(arr, i) == at(arr, 0))))])


@P.fn(F, "_counting_sort")
def c_counting_sort(c):
    codes = c.arg("codes", NDARRAY(INT))
    G = c.arg("n_groups", INT)
    ex = c.ex
    n = codes.n
    (ca,) = arrs_of(codes)
    i, g, p, q = Ints("si sg sp sq")
    c.pre("group_count_nonnegative", G >= 0)
    c.pre("codes_are_group_numbers", forall([i], Implies(And(i >= 0, i < n), And(Select(ca, i) >= 0, Select(ca, i) < G)), patterns=[Select(ca, i)]))
    c.local("counts", NDARRAY(INT))
    cnt = lambda g_, k_: CNT(ca, g_, k_)
    off = lambda j_: OFFK(ca, n, j_)            # first slot of group j
    res = c.result(TUP(NDARRAY(INT), NDARRAY(INT)))
    R = lambda r: r.items[0]
    O = lambda r: r.items[1]
    slot = lambda i_, upto: off(Select(ca, i_)) + cnt(Select(ca, i_), i_)   # the slot of row i: after the earlier rows of its group

    c.post("offsets_are_the_group_starts", lambda r: And(O(r).n == G + 1, forall([g], Implies(And(g >= 0, g <= G), at(O(r), g) == off(g)), patterns=[at(O(r), g)])))
    c.post("groups_partition_all_slots", lambda r: And(off(0) == 0, off(G) == n, R(r).n == n))
    c.post("every_row_sits_in_a_slot_of_its_group", lambda r: forall([i], Implies(And(i >= 0, i < n), And(off(Select(ca, i)) <= slot(i, n), slot(i, n) < off(Select(ca, i) + 1), at(R(r), slot(i, n)) == i)), patterns=[Select(ca, i)]))
    c.post("every_slot_of_a_group_holds_a_row_of_that_group", lambda r: forall([g, p], Implies(And(g >= 0, g < G, p >= off(g), p < off(g + 1)), And(at(R(r), p) >= 0, at(R(r), p) < n, Select(ca, at(R(r), p)) == g))))
    c.post("rows_of_a_group_stay_in_index_order", lambda r: forall([g, p, q], Implies(And(g >= 0, g < G, p >= off(g), p < q, q < off(g + 1)), at(R(r), p) < at(R(r), q))))
    if c.mode != "verify":
        return

    def inv_count(L):  # L0: for i in range(n): counts[codes[i]] += 1
        counts = L.v("counts")
        return [("counts_so_far", And(counts.n == G, forall([g], Implies(And(g >= 0, g < G), at(counts, g) == cnt(g, L.k)), patterns=[at(counts, g)])))]

    def inv_offsets(L):  # L1: for i in range(n_groups): offsets[i + 1] = offsets[i] + counts[i]
        offsets, counts = L.v("offsets"), L.v("counts")
        return [("counts_final", And(counts.n == G, forall([g], Implies(And(g >= 0, g < G), at(counts, g) == cnt(g, n)), patterns=[at(counts, g)]))),
                ("offsets_so_far", And(offsets.n == G + 1, forall([g], Implies(And(g >= 0, g <= L.k), at(offsets, g) == off(g)), patterns=[at(offsets, g)])))]

    def inv_place(L):  # L2: for i in range(n): result[pos[c]] = i; pos[c] += 1
        pos, result, offsets = L.v("pos"), L.v("result"), L.v("offsets")
        k = L.k
        return [("all_slots", And(off(G) == n, off(0) == 0)),
                ("offsets_final", And(offsets.n == G + 1, forall([g], Implies(And(g >= 0, g <= G), at(offsets, g) == off(g)), patterns=[at(offsets, g)]))),
                ("next_free_slot_of_each_group", And(pos.n == G, result.n == n, forall([g], Implies(And(g >= 0, g < G), at(pos, g) == off(g) + cnt(g, k)), patterns=[at(pos, g)]))),
                ("rows_placed_so_far", forall([i], Implies(And(i >= 0, i < k), at(result, slot(i, k)) == i), patterns=[Select(ca, i)])),
                ("filled_slots_hold_rows_of_their_group", forall([g, p], Implies(And(g >= 0, g < G, p >= off(g), p < off(g) + cnt(g, k)), And(at(result, p) >= 0, at(result, p) < k, Select(ca, at(result, p)) == g)))),
                ("filled_slots_in_index_order", forall([g, p, q], Implies(And(g >= 0, g < G, p >= off(g), p < q, q < off(g) + cnt(g, k)), at(result, p) < at(result, q))))]

    c.invariant("L0", inv_count)
    c.invariant("L1", inv_offsets)
    c.invariant("L2", inv_place)
