"""C10 — tile-shape candidates and mapspace counts are complete and exact.

Real code:
  accelforge/mapper/FFM/_make_pmappings/make_pmappings_from_templates/make_tile_shapes.py
      _factorize, get_possible_factor_sizes (+ its closure _try_admit, inlined)
  accelforge/util/_mathfuncs.py
      _divisors, _count_factorizations

Nonlinear integer operations (x*y, n//d, n%d, ceil(n/d) with a symbolic divisor) are
uninterpreted symbols M, D, R, C in the function VCs (P.abstract_nl); every arithmetic
fact the proofs use is a lemma below, proved as its own VC with the symbols
interpreted as the real operations.  dvd(x, n) is the spec predicate "x >= 1 and x
divides n" (a definition).
"""
import itertools
import z3
from vf.dsl import *

P = Property("C10", "Tile-shape candidates and mapspace counts are complete and exact")
F = "accelforge/mapper/FFM/_make_pmappings/make_pmappings_from_templates/make_tile_shapes.py"
MF = "accelforge/util/_mathfuncs.py"
P.oracle = "C10"
P.abstract_nl = True
P.assume_note("A-FLOATDIV: math.ceil(a / b) == -(-a // b), round(a / b) is the exact rounding of the exact quotient, math.ceil(n ** 0.5) is the least B with B*B >= n (float division / sqrt of the sizes involved is exact enough; corroborated on CPython by the bounded cross-check)")
P.assume_note("np.array(sorted(...)) keeps order and values; ndarray * int is elementwise (numpy, trusted)")

T = P.theory
M, D, R, C = T.umul, T.udiv, T.umod, T.ucdiv
dvd = Function("dvd", IntSort(), IntSort(), BoolSort())
mark = Function("mark", IntSort(), IntSort(), IntSort(), BoolSort())  # instantiation guard, see lemma SCALE
_x, _n = Int("x"), Int("n")
P.hint("def.dvd", ForAll([_x, _n], dvd(_x, _n) == And(_x >= 1, R(_n, _x) == 0), patterns=[dvd(_x, _n)]))
P.hint("def.mul_comm", ForAll([_x, _n], M(_x, _n) == M(_n, _x), patterns=[M(_x, _n)]))


# =====================================================================================
# Lemmas.  Each closed statement is generated from the VC that proves it.
# =====================================================================================
@P.lemma("DIV")
def lemma_div(L):
    x, n, a, b, B = Int("x"), Int("n"), Int("a"), Int("b"), Int("B")
    q = D(n, x)
    L.direct([dvd(x, n), n >= 1],
             And(x <= n, q >= 1, q <= n, M(x, q) == n, M(q, x) == n, D(n, q) == x, C(n, x) == q),
             patterns=[dvd(x, n)], name="quotient")
    p = M(a, b)
    prod = L.direct([a >= 1, b >= 1], And(dvd(a, p), D(p, a) == b, dvd(b, p), D(p, b) == a, p >= 1), patterns=[M(a, b)], name="product")
    L.direct([dvd(x, n), n >= 1], dvd(q, n), patterns=[dvd(x, n)], using=[L.instance(prod, q, x)], name="cofactor_divides")
    # x | n and n <= B*B  ==>  x <= B or n/x <= B      (every divisor pair is met by i <= ceil(sqrt n))
    L.direct([dvd(x, n), n >= 1, B >= 0, M(B, B) >= n], Or(x <= B, q <= B), patterns=[z3.MultiPattern(dvd(x, n), M(B, B))], name="sqrt")
    L.direct([n >= 1], And(C(n, n) == 1, D(n, n) == 1, dvd(n, n), dvd(1, n), M(n, 1) == n, M(1, n) == n), close=False, name="self")
    L.direct([dvd(a, n), n >= 0], And(dvd(a, n + a), D(n + a, a) == D(n, a) + 1), close=False, name="add")
    # two multiples of a less than a apart are equal
    L.direct([dvd(a, x), dvd(a, n), n <= x, x < n + a, n >= 1], x == n, patterns=[z3.MultiPattern(dvd(a, x), dvd(a, n))], name="gap")


@P.lemma("SCALE", uses=["DIV"])
def lemma_scale(L):
    a, n, d, q, x, e, u, w = Int("a"), Int("n"), Int("d"), Int("q"), Int("x"), Int("e"), Int("u"), Int("w")
    prod = P.closed_named["DIV.product"]
    inst = L.instance
    # d | n/a  ==>  d*a | n        (a | n).  First with the co-factors named (polynomial identities) ...
    upA = L.direct([a >= 1, d >= 1, e >= 1, q == M(d, e), n == M(a, q)], And(dvd(M(d, a), n), dvd(a, M(d, a))), close=False,
                   using=[inst(prod, M(d, a), e), inst(prod, a, d), inst(prod, d, a)], name="up.named")
    # ... then with e := q / d
    # (mark(q, a, n) is an uninterpreted guard that occurs only as a hypothesis: it confines the
    #  instantiation of these two lemmas to the one (quotient, inner, outer) triple the function
    #  marks with c.mark(...); without it the two multi-patterns feed each other for ever)
    L.direct([mark(q, a, n), dvd(a, n), n >= 1, q == D(n, a), dvd(d, q)], And(dvd(M(d, a), n), dvd(a, M(d, a))),
             patterns=[z3.MultiPattern(mark(q, a, n), dvd(d, q))], using=[inst(upA, a, d, D(q, d), n, q)], name="up")
    # a | x | n  ==>  x/a | n/a  and (x/a)*a == x
    downA = L.direct([a >= 1, u >= 1, w >= 1, x == M(a, u), n == M(x, w)], And(D(n, a) == M(u, w), dvd(u, M(u, w)), dvd(a, n)), close=False,
                     using=[inst(prod, a, M(u, w)), inst(prod, u, w)], name="down.named")
    L.direct([mark(q, a, n), dvd(a, x), dvd(x, n), n >= 1], And(dvd(D(x, a), D(n, a)), M(D(x, a), a) == x, D(x, a) >= 1, dvd(a, n)),
             patterns=[z3.MultiPattern(mark(q, a, n), dvd(a, x), dvd(x, n))], using=[inst(downA, a, n, D(x, a), D(n, x), x)], name="down")


@P.lemma("TILES", uses=[])
def lemma_tiles(L):
    # t = ceil(n / m) tiles  ==>  ceil(n / t) is the smallest shape that gives t tiles
    n, m, t, k = Int("n"), Int("m"), Int("t"), Int("k")
    h = [n >= 1, m >= 1, m <= n]
    t = C(n, m)
    L.direct(h, And(t >= 1, t <= n, C(n, t) >= 1, C(n, t) <= m, C(n, C(n, t)) == t), patterns=[C(n, m)], name="roundtrip")
    L.direct(h + [k >= 1, k < C(n, t)], C(n, k) > t, close=False, name="smallest")
    L.direct([n >= 1], And(C(n, n) == 1, C(n, 1) == n), patterns=[C(n, n)], close=False, name="ends")


from contracts import C10_counter

DIVSET, SORTED_ENUM, SORTED_LEN = C10_counter.install(P, MF, dvd, D, C, R)


# =====================================================================================
# _factorize
# =====================================================================================
@P.fn(F, "_factorize", hints=["DIV"])
def c_factorize(c):
    n = c.arg("n", INT)
    c.pre("n_ge_1", n >= 1)
    c.local("factors", SEQ(INT))
    c.result(NDARRAY(INT))
    x, j = Int("x"), Int("j")
    c.post("only_divisors", lambda r: forall([x], Implies(mem(r, x), dvd(x, n)), patterns=[mem(r, x)]))
    c.post("every_divisor", lambda r: forall([x], Implies(dvd(x, n), mem(r, x)), patterns=[dvd(x, n)]))
    c.post("strictly_increasing", lambda r: increasing(r))

    def inv(L):
        i = 1 + L.k  # value of the loop variable at this iteration
        fs = L.v("factors")
        phi = lambda y: And(dvd(y, n), Or(y < i, D(n, y) < i))
        return [
            ("only_divisors_found_so_far", forall([j], Implies(And(j >= 0, j < fs.n), phi(at(fs, j))), patterns=[at(fs, j)])),
            ("trigger.i", dvd(i, n)),
            ("every_divisor_found_so_far", forall([x], Implies(phi(x), mem(fs, x)), patterns=[dvd(x, n)])),
        ]

    c.invariant("L0", inv)


# =====================================================================================
# _divisors
# =====================================================================================
@P.fn(MF, "_divisors", hints=["DIV"])
def c_divisors(c):
    n = c.arg("n", INT)
    c.pre("n_ge_1", n >= 1)
    c.result(SEQ(INT))
    x = Int("x")
    c.post("only_divisors", lambda r: forall([x], Implies(mem(r, x), dvd(x, n)), patterns=[mem(r, x)]))
    c.post("every_divisor", lambda r: forall([x], Implies(dvd(x, n), mem(r, x)), patterns=[dvd(x, n)]))
    c.post("ascending", lambda r: increasing(r))
    # ... and it IS the sorted enumeration of the divisor set (what the chain count sums over)
    c.post("is_the_sorted_divisor_enumeration", lambda r: And(r.n == SORTED_LEN(DIVSET(n)), r.arr == SORTED_ENUM(DIVSET(n))))


# =====================================================================================
# get_possible_factor_sizes
# =====================================================================================
def gpfs_common(c, imperfect):
    outer = c.arg("outer_size", INT)
    c.arg("imperfect", CONST(imperfect))
    inner = c.arg("inner_size", INT)
    c.arg("coarseness", CONST(1))
    c.pre("sizes", And(inner >= 1, inner <= outer))
    c.local("factors", SET(INT))
    c.local("n_tiles", SET(INT))
    c.result(NDARRAY(INT))
    return outer, inner


@P.fn(F, "get_possible_factor_sizes", label="perfect", hints=["DIV", "SCALE", "TILES"])
def c_gpfs_perfect(c):
    outer, inner = gpfs_common(c, False)
    c.pre("inner_divides_outer", dvd(inner, outer))
    c.use("DIV.self", outer)
    c.use("DIV.self", C(outer, inner))
    c.use("TILES.ends", outer)
    c.mark(mark(C(outer, inner), inner, outer))
    m, j = Int("m"), Int("j")
    # "exactly the multiples of the inner size that divide the outer size", as two inclusions
    c.post("only_multiples_of_inner_dividing_outer", lambda r: forall([m], Implies(mem(r, m), And(dvd(inner, m), dvd(m, outer))), patterns=[mem(r, m)]))
    c.post("every_multiple_of_inner_dividing_outer", lambda r: forall([m], Implies(And(dvd(inner, m), dvd(m, outer)), mem(r, m)), patterns=[z3.MultiPattern(dvd(inner, m), dvd(m, outer))]))
    c.post("strictly_increasing", lambda r: increasing(r))

    def inv(L):
        S, fs, ta, prev = L.seq, L.v("factors"), L.v("try_add"), L.v("prev")
        return [
            ("only_candidates", forall([m], Implies(Select(fs.arr, m), Select(ta.arr, m)), patterns=[Select(fs.arr, m)])),
            ("visited_added", forall([j], Implies(And(j >= 0, j < L.k), Select(fs.arr, at(S, j))), patterns=[at(S, j)])),
            ("prev_is_last_visited", If(L.k == 0, prev == 0, prev == at(S, L.k - 1))),
        ]

    c.invariant("L1", inv)


@P.fn(F, "get_possible_factor_sizes", label="imperfect", hints=["DIV", "TILES"])
def c_gpfs_imperfect(c):
    outer, inner = gpfs_common(c, True)
    c.use("TILES.ends", outer)
    c.use("DIV.self", inner)
    m, v, t = Int("m"), Int("v"), Int("t")
    c.post("within_bounds", lambda r: forall([m], Implies(mem(r, m), And(m >= 1, m <= outer)), patterns=[mem(r, m)]))
    # for every number of tiles achievable by a multiple v of the inner size: the smallest shape
    # giving that count, ceil(outer / ceil(outer / v)), is a candidate  (smallest: lemma TILES.smallest)
    c.post("smallest_shape_per_tile_count", lambda r: forall([v], Implies(And(v >= 1, dvd(inner, v), v <= outer), mem(r, C(outer, C(outer, v)))), patterns=[dvd(inner, v)]))
    c.post("strictly_increasing", lambda r: increasing(r))

    def inv(L):
        n, fs, nt = L.v("n"), L.v("factors"), L.v("n_tiles")
        return [
            L.use("DIV.add", inner, n - inner),  # lemma call: inner | n - inner  ==>  inner | n
            ("n_multiple_of_inner", And(dvd(inner, n), n >= inner)),
            ("tile_counts_of_visited", forall([v], Implies(And(v >= 1, dvd(inner, v), v < n, v <= outer), Select(nt.arr, C(outer, v))), patterns=[dvd(inner, v)])),
            ("tile_count_has_shape", forall([t], Implies(Select(nt.arr, t), And(t >= 1, t <= outer, Select(fs.arr, C(outer, t)), C(outer, C(outer, t)) == t)), patterns=[Select(nt.arr, t)])),
            ("shape_has_tile_count", forall([m], Implies(Select(fs.arr, m), And(m >= 1, m <= outer, Select(nt.arr, C(outer, m)), C(outer, C(outer, m)) == m)), patterns=[Select(fs.arr, m)])),
        ]

    c.invariant("L0", inv)
