"""C24 — workload geometry matches enumeration of the iteration space.

Bounds, sizes, strides and halos are computed through islpy's C library and sympy; the property is decided by
the bounded check (oracles/C24.py) and the check is registered at level `exploration`.  Under contract (proof
level) is only _card_box of accelforge/frontend/_workload_isl/_isl.py: for a set whose per-dimension minimum
and maximum are constants it returns the product of the extents (max - min + 1), and it raises ValueError --
instead of returning a number -- as soon as one bound is not a constant.
"""
import z3
from vf.dsl import *
import vf.values as VV
import vf.builtins as VB

P = Property("C24", "Workload geometry matches enumeration of the iteration space")
F = "accelforge/frontend/_workload_isl/_isl.py"
P.oracle = "C24"
P.claim_level = "exploration"
P.assume_note("islpy: Set.dim / dim_min / dim_max / PwAff.is_cst / as_aff().get_constant_val().to_python() are assumed pure functions of the set and the dimension")
VB.MODULES["isl"] = "isl"
VB.MODULE_ATTRS["isl.dim_type"] = VV.ModV("isl.dim_type")
VB.MODULE_ATTRS["isl.dim_type.set"] = VV.StrV("isl.dim_type.set")
P.classes |= {"IslSet", "PwAff", "Aff", "IslVal"}
NDIM = Function("isl_n_dims", Ref, IntSort())
DMIN = Function("isl_dim_min", Ref, IntSort(), Ref)
DMAX = Function("isl_dim_max", Ref, IntSort(), Ref)
ISCST = Function("isl_is_constant", Ref, BoolSort())
CVAL = Function("isl_constant_value", Ref, IntSort())
PROD = P.theory.prod_int
IA = ArraySort(IntSort(), IntSort())
_a = Const("pa", IA)
_lo, _hi = Ints("plo phi")
P.hint("def.prod.empty", ForAll([_a, _lo], PROD(_a, _lo, _lo) == 1, patterns=[PROD(_a, _lo, _lo)]))
P.hint("def.prod.step", ForAll([_a, _lo, _hi], Implies(_hi > _lo, PROD(_a, _lo, _hi) == PROD(_a, _lo, _hi - 1) * Select(_a, _hi - 1)), patterns=[PROD(_a, _lo, _hi)]))

_b = Const("pb", IA)
_k, _i = Ints("pk pi")


@P.lemma("PROD_EXT")
def lemma_prod_ext(L):
    # arrays that agree on [0, k) have the same product over [0, k)
    L.induction(_k, 0, lambda m: Implies(ForAll([_i], Implies(And(_i >= 0, _i < m), Select(_a, _i) == Select(_b, _i))), PROD(_a, 0, m) == PROD(_b, 0, m)),
                patterns=[lambda m: z3.MultiPattern(PROD(_a, 0, m), PROD(_b, 0, m))])


def ext(name, cls, argtypes, result):
    @P.external(name, f"islpy {cls}.{name} (assumed pure)", cls=cls)
    def c_(c):
        s = c.arg("self", OBJ(cls))
        args = [c.arg(f"a{i}", t) for i, t in enumerate(argtypes)]
        c.result_is(result(s, *args))
    return c_


ext("dim", "IslSet", [CONST(None)], lambda s, t: NDIM(s.ref))
ext("dim_min", "IslSet", [INT], lambda s, i: ObjV(DMIN(s.ref, i), "PwAff"))
ext("dim_max", "IslSet", [INT], lambda s, i: ObjV(DMAX(s.ref, i), "PwAff"))
ext("is_cst", "PwAff", [], lambda s: ISCST(s.ref))
ext("as_aff", "PwAff", [], lambda s: ObjV(s.ref, "Aff"))
ext("get_constant_val", "Aff", [], lambda s: ObjV(s.ref, "IslVal"))
ext("to_python", "IslVal", [], lambda s: CVAL(s.ref))


@P.fn(F, "_card_box")
def c_card_box(c):
    ds = c.arg("data_space", OBJ("IslSet"))
    c.local("dims", SEQ(INT))
    d = ds.ref
    n = NDIM(d)
    c.pre("dimension_count_nonnegative", n >= 0)
    c.result(INT)
    i = Int("ci")
    all_const = ForAll([i], Implies(And(i >= 0, i < n), And(ISCST(DMIN(d, i)), ISCST(DMAX(d, i)))))
    c.raises("ValueError", when=lambda: Not(all_const), name="only_if_a_bound_is_not_constant")
    EXT = Function(fresh_name("extent"), IntSort(), IntSort())
    c.ex.assume(ForAll([i], EXT(i) == CVAL(DMAX(d, i)) - CVAL(DMIN(d, i)) + 1, patterns=[EXT(i)]))
    EA = Lambda([i], EXT(i))
    c.post("every_bound_is_constant_on_normal_return", lambda r: all_const)
    c.post("product_of_the_extents", lambda r: r == PROD(EA, 0, n))

    def inv(L):
        dims = c.ex.materialize(L.v("dims"))
        return [("extents_so_far", And(dims.n == L.k, forall([i], Implies(And(i >= 0, i < L.k), And(at(dims, i) == EXT(i), ISCST(DMIN(d, i)), ISCST(DMAX(d, i)))), patterns=[at(dims, i)])))]

    c.invariant("L0", inv)
