"""C21 — spec expressions evaluate in dependency order with correct scoping.

Real code (accelforge/util/_basetypes.py):
  _get_parsable_field_order            whole function (the dependency ordering)
  Evalable._eval_expressions_final     SLICE: the evaluation loop
  EvalableModel / EvalableList / EvalableDict._eval_expressions   (scoping: evaluation works on a copy
                                       of the caller's symbol table)
"""
import z3
from vf.dsl import *
import vf.values as VV

P = Property("C21", "Spec expressions evaluate in dependency order with correct scoping")
B = "accelforge/util/_basetypes.py"
P.oracle = "C21"

# ---- abstract vocabulary --------------------------------------------------------------------
ORIGIN = Function("typing_get_origin", Val, Val)           # typing.get_origin(validator)
EVALSTO = Const("class:EvalsTo", Val)
P.globals["EvalsTo"] = EVALSTO
ESC = Function("re_escape", Elem, Val)                      # re.escape(field)
MATCHES = Function("re_findall_nonempty", Val, Val, BoolSort())   # bool(re.findall(pattern, string))
IS_LITERAL = Function("is_literal_string", Val, BoolSort())
CONCAT = P.theory.str_concat
WB = P.theory.str_const(r"\b")


def wordpat(f):
    """the pattern  r"\\b" + re.escape(field) + r"\\b"  (whole-word occurrence of the field name)"""
    return CONCAT(CONCAT(WB, ESC(f)), WB)


def is_str(v):
    return P.theory.val_isinstance("str")(v)


def is_evalable(v):
    return P.theory.val_isinstance("Evalable")(v)


P.classes |= {"Evalable"}
P.assume_note("re.findall / re.escape / typing.get_origin / is_literal_string are abstract (uninterpreted) functions of their arguments: `field occurs as a whole word in value` is whatever re.findall(r'\\b'+re.escape(field)+r'\\b', value) decides")


@P.external("get_origin", "typing.get_origin: a pure function of the annotation")
def c_get_origin(c):
    v = c.arg("tp", VAL)
    c.result_is(ORIGIN(v))


@P.external("re.escape", "re.escape: a pure function of the string")
def c_escape(c):
    f = c.arg("pattern", ELEM)
    c.result_is(ESC(f))


@P.external("re.findall", "re.findall(pattern, string): a list that is non-empty iff the pattern occurs (pure)")
def c_findall(c):
    pat = c.arg("pattern", VAL)
    s = c.arg("string", VAL)
    r = c.result(SEQ(VAL))
    c.post("nonempty_iff_matches", lambda r: (r.n > 0) == MATCHES(pat, s))


@P.external("is_literal_string", "accelforge.util._eval_expressions.is_literal_string: a pure predicate")
def c_is_literal(c):
    v = c.arg("value", VAL)
    c.result_is(IS_LITERAL(v))


# ---- the statement, over the inputs ---------------------------------------------------------------
class Order:
    """Vocabulary of the ordering property for the inputs (order0, triples)."""

    def __init__(self, c, order0, triples):
        self.c, self.order0, self.T = c, order0, triples
        fa, va, da = arrs_of(triples)
        self.field = lambda i: Select(fa, i)
        self.value = lambda i: Select(va, i)
        self.validator = lambda i: Select(da, i)

    def idx(self, i):
        return And(i >= 0, i < self.T.n)

    def parsable(self, i):
        return is_evalable(self.value(i))

    def sortable(self, i):
        """the entry takes part in dependency sorting (not pre-ordered, and an expression or Evalable)"""
        return And(self.idx(i), Not(mem(self.order0, self.field(i))), Or(ORIGIN(self.validator(i)) == EVALSTO, self.parsable(i)))

    def plain(self, i):
        return And(self.idx(i), Not(mem(self.order0, self.field(i))), Not(Or(ORIGIN(self.validator(i)) == EVALSTO, self.parsable(i))))

    def dep(self, i, j):
        """entry i depends on entry j: i's value is a non-literal string in which j's name occurs as a word"""
        return And(self.sortable(i), self.sortable(j), self.field(i) != self.field(j),
                   is_str(self.value(i)), Not(IS_LITERAL(self.value(i))), MATCHES(wordpat(self.field(j)), self.value(i)))


def fields_of(ts):
    """the field names of a list of (field, value) pairs, as a sequence"""
    return SeqV(Elem, arrs_of(ts)[0], ts.n)


@P.fn(B, "_get_parsable_field_order")
def c_order(c):
    order0 = c.arg("order", SEQ(ELEM))
    T = c.arg("field_value_validator_triples", SEQ(TUP(ELEM, VAL, VAL)))
    c.local("to_sort", SEQ(TUP(ELEM, VAL)))
    c.local("dependencies", MAP(ELEM, SET(ELEM)))
    c.local("can_add", SEQ(TUP(ELEM, VAL)))
    ex = c.ex
    O = Order(c, order0, T)
    n0 = order0.n
    i, j, p, q = Ints("oi oj op oq")
    x = Const("ox", Elem)
    c.pre("field_names_distinct", ForAll([i, j], Implies(And(O.idx(i), O.idx(j), i != j), O.field(i) != O.field(j))))
    # ghost: the index of a field name in the triples (exists because the names are distinct)
    IDX = c.ghost("IDX", ArraySort(Elem, IntSort()), lambda g: ForAll([i], Implies(O.idx(i), Select(g, O.field(i)) == i), patterns=[O.field(i)]))
    ix = lambda e: Select(IDX, e)
    is_field = lambda e: And(O.idx(ix(e)), O.field(ix(e)) == e)
    SORTF = lambda e: And(is_field(e), O.sortable(ix(e)))
    PLAINF = lambda e: And(is_field(e), O.plain(ix(e)))
    nonlit = lambda v: And(is_str(v), Not(IS_LITERAL(v)))
    R = c.result(SEQ(ELEM))

    def at_(r, k):
        return Select(arrs_of(r)[0], k)

    def fld(ts, k):
        return Select(arrs_of(ts)[0], k)

    def val(ts, k):
        return Select(arrs_of(ts)[1], k)

    def dset(deps, key, e):
        """e in deps[key]"""
        return Select(Select(deps.val, key), e)

    # ---- postconditions (the statement) ------------------------------------------------------------
    c.post("given_order_is_kept_as_prefix", lambda r: And(r.n >= n0, ForAll([p], Implies(And(p >= 0, p < n0), at_(r, p) == at(order0, p)))))
    c.post("every_field_is_ordered", lambda r: ForAll([i], Implies(O.idx(i), mem(r, O.field(i)))))
    c.post("dependencies_come_first", lambda r: ForAll([i, j], Implies(O.dep(i, j), Exists([p, q], And(p >= 0, p < q, q < r.n, q >= n0, at_(r, p) == O.field(j), at_(r, q) == O.field(i))))))
    c.post("no_field_is_ordered_twice", lambda r: ForAll([p, q], Implies(And(p >= 0, p < q, q < r.n, q >= n0), at_(r, p) != at_(r, q))))

    # EvaluationError only when every remaining entry still waits for a dependency that is not ordered
    # (in a finite graph that means: the remaining entries contain a dependency cycle)
    def stuck():
        ts, order, deps = ex.env.get("to_sort"), ex.env.get("order"), ex.env.get("dependencies")
        return And(ts.n > 0, ForAll([p], Implies(And(p >= 0, p < ts.n), Exists([x], And(dset(deps, fld(ts, p), x), Not(mem(order, x)))))))

    c.raises("EvaluationError", when=stuck, name="only_when_every_remaining_entry_waits_for_an_unordered_dependency")

    if c.mode != "verify":
        return

    # ---- invariants --------------------------------------------------------------------------------
    def inv_order_common(order):
        return [
            ("given_order_kept", And(order.n >= n0, ForAll([p], Implies(And(p >= 0, p < n0), at_(order, p) == at(order0, p))))),
            ("no_duplicates_after_the_given_order", forall([p, q], Implies(And(p >= 0, p < q, q < order.n, q >= n0), at_(order, p) != at_(order, q)), patterns=[z3.MultiPattern(at_(order, p), at_(order, q))])),
        ]

    def inv_collect(L):  # L0: for field, value, validator in triples
        order, ts = L.v("order"), L.v("to_sort")
        k = L.k
        return inv_order_common(order) + [
            ("appended_are_plain_fields_seen", ForAll([p], Implies(And(p >= n0, p < order.n), And(PLAINF(at_(order, p)), ix(at_(order, p)) < k)), patterns=[at_(order, p)])),
            ("plain_fields_seen_are_ordered", ForAll([i], Implies(And(i >= 0, i < k, O.plain(i)), mem(order, O.field(i))), patterns=[O.field(i)])),
            ("to_sort_holds_sortable_entries_seen", ForAll([p], Implies(And(p >= 0, p < ts.n), And(SORTF(fld(ts, p)), ix(fld(ts, p)) < k, val(ts, p) == O.value(ix(fld(ts, p))))), patterns=[fld(ts, p)])),
            ("to_sort_keeps_the_order_of_the_triples", forall([p, q], Implies(And(p >= 0, p < q, q < ts.n), ix(fld(ts, p)) < ix(fld(ts, q))), patterns=[z3.MultiPattern(fld(ts, p), fld(ts, q))])),
            ("sortable_entries_seen_are_in_to_sort", ForAll([i], Implies(And(i >= 0, i < k, O.sortable(i)), mem(fields_of(ts), O.field(i))), patterns=[O.field(i)])),
        ]

    def deps_rows(deps, ts, upto, skip=None):
        """deps[f_p] for the rows p (other than `skip`): exactly the dependencies of row p if p < upto, else empty"""
        F = fields_of(ts)
        rng = And(p >= 0, p < ts.n) if skip is None else And(p >= 0, p < ts.n, p != skip)
        body = dset(deps, fld(ts, p), x) == And(p < upto, nonlit(val(ts, p)), mem(F, x), x != fld(ts, p), MATCHES(wordpat(x), val(ts, p)))
        return ForAll([p, x], Implies(rng, body), patterns=[dset(deps, fld(ts, p), x)])

    def dom_ok(deps, ts):
        return ForAll([x], Select(deps.dom, x) == mem(fields_of(ts), x), patterns=[Select(deps.dom, x)])

    def inv_deps_outer(L):  # L1: for other_field, other_value in to_sort
        deps, ts = L.v("dependencies"), L.v("to_sort")
        return [("keys_are_the_to_sort_fields", dom_ok(deps, ts)), ("rows_done_hold_their_dependencies", deps_rows(deps, ts, L.k))]

    def inv_deps_inner(L):  # L2: for field, value in to_sort
        deps, ts = L.v("dependencies"), L.v("to_sort")
        k = L.outer.k
        F = fields_of(ts)
        row = ForAll([x], dset(deps, fld(ts, k), x) == And(mem(F, x), x != fld(ts, k), MATCHES(wordpat(x), val(ts, k)), mem_index(F, x) < L.k), patterns=[dset(deps, fld(ts, k), x)])
        return [("keys_are_the_to_sort_fields", dom_ok(deps, ts)), ("other_rows_unchanged", deps_rows(deps, ts, k, skip=k)), ("this_row_holds_the_dependencies_among_the_fields_seen", row)]

    def deps_spec(deps):
        return ForAll([i], Implies(O.sortable(i), And(Select(deps.dom, O.field(i)),
                      ForAll([x], dset(deps, O.field(i), x) == And(SORTF(x), x != O.field(i), nonlit(O.value(i)), MATCHES(wordpat(x), O.value(i))), patterns=[dset(deps, O.field(i), x)]))), patterns=[O.field(i)])

    def inv_main(L):  # L3: while to_sort
        order, ts, deps = L.v("order"), L.v("to_sort"), L.v("dependencies")
        return inv_order_common(order) + [
            ("to_sort_holds_sortable_entries", ForAll([p], Implies(And(p >= 0, p < ts.n), And(SORTF(fld(ts, p)), val(ts, p) == O.value(ix(fld(ts, p))))), patterns=[fld(ts, p)])),
            ("to_sort_fields_distinct", forall([p, q], Implies(And(p >= 0, p < q, q < ts.n), fld(ts, p) != fld(ts, q)), patterns=[z3.MultiPattern(fld(ts, p), fld(ts, q))])),
            ("to_sort_fields_not_ordered_yet", ForAll([p], Implies(And(p >= 0, p < ts.n), Not(mem(order, fld(ts, p)))), patterns=[fld(ts, p)])),
            ("sortable_entries_wait_or_are_ordered", ForAll([i], Implies(O.sortable(i), Or(mem(fields_of(ts), O.field(i)), Exists([q], And(q >= n0, q < order.n, at_(order, q) == O.field(i))))), patterns=[O.field(i)])),
            ("plain_fields_are_ordered", ForAll([i], Implies(O.plain(i), mem(order, O.field(i))), patterns=[O.field(i)])),
            ("dependencies_are_the_word_occurrences", deps_spec(deps)),
            ("ordered_entries_follow_their_dependencies", ForAll([q, x], Implies(And(q >= n0, q < order.n, SORTF(at_(order, q)), dset(deps, at_(order, q), x)), Exists([p], And(p >= 0, p < q, at_(order, p) == x))), patterns=[dset(deps, at_(order, q), x)])),
        ]

    def inv_pick(L):  # L4: for f, v in can_add  (leaves by `break` after one removal, or falls through unchanged)
        order, ts = L.v("order"), L.v("to_sort")
        o0, t0 = L.entry("order"), L.entry("to_sort")
        same = lambda a, b: And(a.n == b.n, *[x_ == y_ for x_, y_ in zip(arrs_of(a), arrs_of(b))])
        return [("nothing_changed_before_the_break", And(same(order, o0), same(ts, t0)))]

    c.invariant("L0", inv_collect)
    c.invariant("L1", inv_deps_outer)
    c.invariant("L2", inv_deps_inner)
    c.invariant("L3", inv_main)
    c.invariant("L4", inv_pick)
    c.variant("L3", lambda L: L.v("to_sort").n)


# ==== Evalable._eval_expressions_final: the evaluation loop ==========================================
TVAR = Const("typevar:T", Val)
P.globals["T"] = TVAR
DOM = ArraySort(Elem, BoolSort())
VALS = ArraySort(Elem, Val)
EV = Function("eval_field", Elem, Val, Val, DOM, VALS, Val)      # eval_field(field, value, validator, symbol table)
VALIDATOR = Function("get_validator", Elem, Val)                  # self.get_validator(field)
P.assume_note("eval_field(field, value, validator, symbol_table, ...) is an assumed pure function EV of (field, value, validator, the symbol table's content): it does not modify the table it is given (nested evaluations copy it, see the _eval_expressions contracts) and the keyword arguments / parent only affect error messages")
P.assume_note("an object's attribute namespace (getattr / setattr with a computed name) is modelled as a finite map name -> value; pydantic's __setattr__ validation is not modelled")
P.assume_note("post_calls == () in the evaluation-loop contract (the ArchNodes post-call that registers arch leaves in the symbol table is outside the statement)")


@P.external("eval_field", "accelforge.util._basetypes.eval_field: assumed pure function of (field, value, validator, symbol table content)")
def c_eval_field(c):
    f = c.arg("field", ELEM)
    v = c.arg("value", VAL)
    d = c.arg("validator", VAL)
    st = c.arg("symbol_table", MAP(ELEM, VAL, ordered=False))
    c.arg("parent", MAP(ELEM, VAL, ordered=False))
    c.result_is(EV(f, v, d, st.dom, st.val))


@P.external("get_validator", "Evalable.get_validator(field): the declared type of a field (pure)")
def c_get_validator(c):
    c.arg("self", MAP(ELEM, VAL, ordered=False))
    f = c.arg("field", ELEM)
    c.result_is(VALIDATOR(f))


def final_loop(label, use_setattr):
    @P.slice(B, "Evalable._eval_expressions_final", label, "for field in field_order", "for field in field_order")
    def c_final(c):
        self_ = c.var("self", MAP(ELEM, VAL, ordered=False))
        st = c.var("symbol_table", MAP(ELEM, VAL, ordered=False))
        fo = c.var("field_order", SEQ(ELEM))
        c.var("use_setattr", CONST(use_setattr))
        vfp = c.var("validator_from_parent", OPT(VAL))
        c.var("post_calls", CONST(Tup([])))
        from vf.engine import KwDict
        c.var("kwargs", CONST(KwDict({})))
        n = fo.n
        p, q = Ints("ep eq")
        c.pre("field_order_has_no_duplicates", ForAll([p, q], Implies(And(p >= 0, p < q, q < n), at(fo, p) != at(fo, q))))
        c.pre("ordered_names_are_fields_of_the_object", ForAll([p], Implies(And(p >= 0, p < n), Select(self_.dom, at(fo, p))), patterns=[at(fo, p)]))
        c.raises("EvaluationError", when=None)
        vd = lambda f: If(vfp.isnone, VALIDATOR(f), vfp.val)
        # the sequence of symbol tables: table(0) is the incoming one; table(p+1) binds the p-th name to the
        # value of its expression over table(p)  (a definition by recursion on p)
        TD = Function(fresh_name("table.dom"), IntSort(), DOM)
        TV = Function(fresh_name("table.val"), IntSort(), VALS)
        value_of = lambda p_: EV(at(fo, p_), Select(self_.val, at(fo, p_)), vd(at(fo, p_)), TD(p_), TV(p_))
        c.ex.assume(And(TD(0) == st.dom, TV(0) == st.val))
        c.ex.assume(ForAll([p], Implies(And(p >= 0, p < n), And(TD(p + 1) == Store(TD(p), at(fo, p), True), TV(p + 1) == Store(TV(p), at(fo, p), value_of(p)))), patterns=[TD(p + 1)]))
        c.post("symbol_table_binds_each_name_to_its_value_over_the_earlier_ones", lambda res: And(res["symbol_table"].dom == TD(n), res["symbol_table"].val == TV(n)))
        c.post("object_holds_the_evaluated_values", lambda res: ForAll([p], Implies(And(p >= 0, p < n), Select(res["self"].val, at(fo, p)) == value_of(p)), patterns=[at(fo, p)]))
        x = Const("ex", Elem)
        c.post("other_attributes_unchanged", lambda res: ForAll([x], Implies(Not(mem(fo, x)), And(Select(res["self"].val, x) == Select(self_.val, x), Select(res["self"].dom, x) == Select(self_.dom, x)))))

        def inv(L):
            s_, t_ = L.v("self"), L.v("symbol_table")
            k = L.k
            return [
                ("table_is_the_kth_table", And(t_.dom == TD(k), t_.val == TV(k))),
                ("evaluated_so_far", ForAll([p], Implies(And(p >= 0, p < k), Select(s_.val, at(fo, p)) == value_of(p)), patterns=[at(fo, p)])),
                ("not_yet_evaluated_unchanged", ForAll([x], Implies(Not(Exists([p], And(p >= 0, p < k, at(fo, p) == x))), And(Select(s_.val, x) == Select(self_.val, x), Select(s_.dom, x) == Select(self_.dom, x))))),
            ]

        c.invariant("L0", inv)

    return c_final


final_loop("loop_setattr", True)
final_loop("loop_setitem", False)


# ==== scoping: every _eval_expressions works on a COPY of the caller's symbol table ======================
TBL = MAP(ELEM, VAL, ordered=False)
FINAL = Function("eval_expressions_final", DOM, VALS, DOM, VALS, ArraySort(IntSort(), Elem), IntSort(), BoolSort(), Val, Val, Val)
FINAL_LIST = Function("eval_expressions_final_list", ArraySort(IntSort(), Val), IntSort(), DOM, VALS, Val, Val, Val, Val)
EMPTY_DOM = z3.K(Elem, BoolVal(False))
P.assume_note("Evalable._eval_expressions_final as a WHOLE is an assumed contract at its call sites (it mutates and returns the symbol table it is given; its result is a function of the object's content, the table's content, the order and the remaining arguments); its evaluation loop is verified above as slices, the field listing / already_evaluated / global_ checks around the loop are not")


@P.external("_eval_expressions_final", "Evalable._eval_expressions_final (whole function): assumed at call sites; mutates the symbol table it is handed", cls=None)
def c_final_whole(c):
    self_ = c.arg("self", TBL)
    st = c.arg("symbol_table", TBL)
    order = c.arg("order", SEQ(ELEM))
    pc = c.arg("post_calls", VAL)
    us = c.arg("use_setattr", BOOL)
    ae = c.arg("already_evaluated", VAL)
    c.applies(isinstance(self_, MapV))
    c.mutates("symbol_table")
    order = c.ex.materialize(order) if c.mode == "call" else order
    c.result_is(FINAL(self_.dom, self_.val, st.dom, st.val, arrs_of(order)[0], order.n, us, pc, ae))


@P.external("_eval_expressions_final", "Evalable._eval_expressions_final on a list (fields are the indices): assumed at call sites; the order must list every index", cls=None)
def c_final_whole_list(c):
    self_ = c.arg("self", SEQ(VAL))
    st = c.arg("symbol_table", TBL)
    order = c.arg("order", SEQ(INT))
    pc = c.arg("post_calls", VAL)
    us = c.arg("use_setattr", BOOL)
    ae = c.arg("already_evaluated", VAL)
    c.applies(isinstance(self_, SeqV))
    c.mutates("symbol_table")
    i = Int("li")
    c.pre("order_lists_every_index", ForAll([i], Implies(And(i >= 0, i < self_.n), mem(order, i))))
    c.pre("items_are_addressed_by_index", Not(us))
    self_ = c.ex.materialize(self_) if c.mode == "call" else self_
    c.result_is(FINAL_LIST(arrs_of(self_)[0], self_.n, st.dom, st.val, pc, ae, Const("order_is_a_precondition", Val)))


@P.external("model_copy", "pydantic BaseModel.model_copy(): a new object with the same attribute values")
def c_model_copy(c):
    s_ = c.arg("self", TBL)
    if c.mode == "call":
        c.result_is(MapV(s_.kshape, s_.vshape, s_.dom, s_.val, s_.keys))


@P.external("EvalableDict", "EvalableDict[K, V](mapping): a new dict with the same items")
def c_new_dict(c):
    s_ = c.arg("mapping", TBL)
    if c.mode == "call":
        c.result_is(MapV(s_.kshape, s_.vshape, s_.dom, s_.val, s_.keys))


@P.external("EvalableList", "EvalableList[T](iterable): a new list with the same items")
def c_new_list(c):
    s_ = c.arg("iterable", SEQ(VAL))
    if c.mode == "call":
        c.result_is(SeqV(s_.shape, s_.arr, s_.n))


def scoped(qualname, use_setattr):
    @P.fn(B, qualname, allow_varargs=True)
    def c_wrapper(c):
        self_ = c.arg("self", TBL)
        st = c.arg("symbol_table", OPT(TBL))
        order = c.arg("order", SEQ(ELEM))
        pc = c.arg("post_calls", VAL)
        ae = c.arg("already_evaluated", VAL)
        # (the obligation "the caller's symbol_table is not mutated" is generated by the ownership rule: this
        #  contract does not declare c.mutates("symbol_table"), the callee does)
        dom0 = If(st.isnone, EMPTY_DOM, st.val.dom)
        c.post("evaluates_a_copy_of_the_object_over_a_copy_of_the_callers_table",
               lambda r: Implies(Not(st.isnone), r == FINAL(self_.dom, self_.val, st.val.dom, st.val.val, arrs_of(order)[0], order.n, BoolVal(use_setattr), pc, ae)))
        c.post("without_a_table_evaluation_starts_from_the_empty_table",
               lambda r: Implies(st.isnone, Exists([Const("anyvals", VALS)], r == FINAL(self_.dom, self_.val, EMPTY_DOM, Const("anyvals", VALS), arrs_of(order)[0], order.n, BoolVal(use_setattr), pc, ae))))
        c.result(VAL)

    return c_wrapper


scoped("EvalableModel._eval_expressions", True)
scoped("EvalableDict._eval_expressions", False)


@P.fn(B, "EvalableList._eval_expressions", allow_varargs=True)
def c_wrapper_list(c):
    self_ = c.arg("self", SEQ(VAL))
    st = c.arg("symbol_table", OPT(TBL))
    order = c.arg("order", SEQ(INT))
    pc = c.arg("post_calls", VAL)
    ae = c.arg("already_evaluated", VAL)
    c.post("evaluates_a_copy_of_the_list_over_a_copy_of_the_callers_table",
           lambda r: Implies(Not(st.isnone), r == FINAL_LIST(arrs_of(self_)[0], self_.n, st.val.dom, st.val.val, pc, ae, Const("order_is_a_precondition", Val))))
    c.result(VAL)
